//! Hang watchdog: a generation that loops forever cannot be interrupted inside a thread, so every run registers
//! itself in a slot and a watchdog thread ends the whole process with a verdict (C09: VIOLATION; any other
//! property: MACHINERY-ERROR "could not be judged") when a run exceeds the limit.

use crate::run::Cfg;
use serde_json::json;
use std::sync::atomic::{AtomicU64, Ordering};
use std::sync::{Arc, Mutex, OnceLock};
use std::time::Instant;

pub struct Slot {
    /// milliseconds since process start when the current run began; 0 = idle
    started: AtomicU64,
    info: Mutex<Option<(Cfg, Vec<u8>, Option<u64>)>>,
}

static SLOTS: OnceLock<Mutex<Vec<Arc<Slot>>>> = OnceLock::new();
static T0: OnceLock<Instant> = OnceLock::new();

thread_local! {
    static MY: Arc<Slot> = {
        let s = Arc::new(Slot { started: AtomicU64::new(0), info: Mutex::new(None) });
        SLOTS.get_or_init(|| Mutex::new(vec![])).lock().unwrap().push(s.clone());
        s
    };
}

fn now_ms() -> u64 {
    T0.get_or_init(Instant::now).elapsed().as_millis() as u64 + 1
}

pub struct Guard;

impl Drop for Guard {
    fn drop(&mut self) {
        MY.with(|s| s.started.store(0, Ordering::Release));
    }
}

/// mark the calling thread as running one generation
pub fn enter(cfg: &Cfg, data: &[u8], seed: Option<u64>) -> Guard {
    MY.with(|s| {
        *s.info.lock().unwrap() = Some((cfg.clone(), data[..data.len().min(4096)].to_vec(), seed));
        s.started.store(now_ms(), Ordering::Release);
    });
    Guard
}

/// cheap variant for unit-level calls (no description is stored; the entropy state is stored by the caller on demand)
pub fn enter_light() -> Guard {
    MY.with(|s| s.started.store(now_ms(), Ordering::Release));
    Guard
}

/// start the watchdog thread (once per process)
pub fn start(prop: &'static str, tier: String, limit_s: u64) {
    let _ = now_ms();
    std::thread::spawn(move || loop {
        std::thread::sleep(std::time::Duration::from_millis(250));
        let slots = SLOTS.get_or_init(|| Mutex::new(vec![])).lock().unwrap().clone();
        for s in slots {
            let st = s.started.load(Ordering::Acquire);
            if st != 0 && now_ms().saturating_sub(st) > limit_s * 1000 {
                let info = s.info.lock().unwrap().clone();
                let unit_level = info.is_none();
                let (cfg, data, seed) = info.unwrap_or((Cfg::new(0), vec![], None));
                // strip the zero tail the explorer appends
                let mut script = data.clone();
                while script.last() == Some(&0) {
                    script.pop();
                }
                let replay = match seed {
                    Some(sd) => json!({"kind":"seed","config":cfg.to_json(),"seed":sd}),
                    None => json!({"kind":"bytes","config":cfg.to_json(),"script_hex":crate::lexer::hex(&script)}),
                };
                let dir = crate::report::out_dir();
                let msg = if unit_level {
                    format!("a direct mutator / adapter call did not return within {limit_s} s")
                } else {
                    format!("generation did not terminate within {limit_s} s: {} input {}", cfg.describe(), crate::lexer::hex(&script[..script.len().min(64)]))
                };
                let _ = std::fs::create_dir_all(format!("{dir}/replays"));
                let _ = std::fs::create_dir_all(format!("{dir}/evidence"));
                let path = format!("{dir}/replays/{prop}-{tier}-hang.json");
                let mut r = replay;
                r["property"] = json!(prop);
                r["class"] = json!("hang");
                r["message"] = json!(msg);
                let _ = std::fs::write(&path, serde_json::to_string_pretty(&r).unwrap());
                let ev = json!({
                    "property_id": prop, "tier": tier, "seed": crate::report::seed(), "level": "model_checking",
                    "coverage": {"states": 1, "transitions": 1, "traces_validated_against_impl": 0, "samples": [r], "exhaustive": false,
                                 "explanation": "run aborted by the hang watchdog; nothing else was covered"},
                    "wall_s": T0.get().map(|t| t.elapsed().as_secs_f64()).unwrap_or(0.0), "violations": if prop == "C09" { 1 } else { 0 },
                });
                let _ = std::fs::write(format!("{dir}/evidence/{prop}.json"), serde_json::to_string_pretty(&ev).unwrap());
                if prop == "C09" {
                    println!("VIOLATION property=C09 replay={path}");
                    println!("  hang: {msg}");
                    std::process::exit(1);
                } else {
                    println!("MACHINERY-ERROR a generation did not terminate (C09's finding; this property could not be judged): {msg} (replay {path})");
                    std::process::exit(2);
                }
            }
        }
    });
}
