//! E4 / C13: the front ends (CLI single-file and batch mode, action-run.sh, Python bindings) return exactly the
//! bytes the library returns for the corresponding configuration. The harness is the oracle: it spawns the front
//! end and recomputes the bytes in-process.

use crate::lexer;
use crate::report::{repo_dir, verif_dir, Report};
use crate::run::{run_on, Cfg, Entropy, Mk};
use rayon::prelude::*;
use serde_json::json;
use std::process::Command;

#[derive(Clone, Debug)]
struct CliOpts {
    protocol: Option<u8>,
    seed: u64,
    min: Option<usize>,
    max: Option<usize>,
    /// as given on the command line ("all" allowed)
    mutators: Vec<String>,
    rate: Option<f64>,
    unsafe_mut: bool,
    ext: bool,
    buffer: bool,
}

impl CliOpts {
    fn base(seed: u64) -> Self {
        CliOpts { protocol: None, seed, min: None, max: None, mutators: vec![], rate: None, unsafe_mut: false, ext: false, buffer: false }
    }
    fn argv(&self) -> Vec<String> {
        let mut a = vec![];
        if let Some(p) = self.protocol {
            a.extend(["--protocol".to_string(), p.to_string()]);
        }
        a.extend(["--seed".to_string(), self.seed.to_string()]);
        if let Some(m) = self.min {
            a.extend(["--min-opcodes".to_string(), m.to_string()]);
        }
        if let Some(m) = self.max {
            a.extend(["--max-opcodes".to_string(), m.to_string()]);
        }
        if !self.mutators.is_empty() {
            a.push("--mutators".into());
            a.extend(self.mutators.iter().cloned());
        }
        if let Some(r) = self.rate {
            a.extend(["--mutation-rate".to_string(), format!("{r}")]);
        }
        if self.unsafe_mut {
            a.push("--unsafe-mutations".into());
        }
        if self.ext {
            a.push("--allow-ext".into());
        }
        if self.buffer {
            a.push("--allow-buffer".into());
        }
        a
    }
    /// the library configuration the documentation of the options describes
    fn expected_cfg(&self) -> Cfg {
        let proto = self.protocol.unwrap_or((self.seed % 6) as u8);
        let mut kinds: Vec<Mk> = vec![];
        if self.mutators.iter().any(|m| m == "all") {
            // documented: "all" = the six value/opcode mutators, plus memoindex only with --unsafe-mutations
            kinds = vec![Mk::Bitflip, Mk::Boundary, Mk::Offbyone, Mk::Stringlen, Mk::Character, Mk::Typeconfusion];
            if self.unsafe_mut {
                kinds.push(Mk::Memoindex);
            }
        } else {
            for m in &self.mutators {
                if let Some(k) = Mk::from_name(m) {
                    kinds.push(k);
                }
            }
        }
        let mut c = Cfg::new(proto).range(self.min.unwrap_or(60), self.max.unwrap_or(300)).flags(self.ext, self.buffer);
        if !kinds.is_empty() {
            c = c.muts(&kinds, self.rate.unwrap_or(0.1).clamp(0.0, 1.0), self.unsafe_mut);
        }
        // equal options: --unsafe-mutations is the builder's with_unsafe_mutations(true) whether or not mutators are listed
        // (the library's STACK_GLOBAL guard reads the flag on its own); the rate has nothing to act on without mutators
        c.unsafe_mut = self.unsafe_mut;
        c
    }
    fn expected(&self) -> Result<Vec<u8>, String> {
        let mut g = self.expected_cfg().build().with_seed(self.seed);
        run_on(&mut g, Entropy::Seeded, false, false).out
    }
}

fn cli_matrix(quick: bool) -> Vec<CliOpts> {
    let protos: Vec<Option<u8>> = vec![None, Some(0), Some(1), Some(2), Some(3), Some(4), Some(5)];
    let seeds: Vec<u64> = vec![0, 7, 42, u64::MAX];
    let ranges: Vec<(Option<usize>, Option<usize>)> = vec![(None, None), (Some(0), Some(0)), (Some(5), Some(2)), (Some(3), Some(9)), (None, Some(20)), (Some(100), None)];
    let mut muts: Vec<Vec<String>> = vec![vec![]];
    for m in Mk::ALL {
        muts.push(vec![m.name().to_string()]);
    }
    muts.push(vec!["all".into()]);
    muts.push(vec!["character".into(), "stringlen".into()]);
    muts.push(vec!["stringlen".into(), "character".into()]);
    muts.push(vec!["offbyone".into(), "bitflip".into(), "offbyone".into()]);
    muts.push(vec!["offbyone".into(), "memoindex".into(), "typeconfusion".into()]);
    // the "all" meta value together with explicit names, in either order and repeated: it stands for the whole documented
    // set and absorbs the names next to it
    muts.push(vec!["all".into(), "bitflip".into()]);
    muts.push(vec!["offbyone".into(), "all".into()]);
    muts.push(vec!["all".into(), "all".into()]);
    muts.push(vec!["memoindex".into(), "all".into(), "typeconfusion".into()]);
    let rates: Vec<Option<f64>> = vec![None, Some(0.0), Some(0.5), Some(1.0), Some(7.5)];
    let mut v = vec![];
    if quick {
        // every single-option deviation from two base points, plus a pairwise-style diagonal mix
        for base_seed in [7u64, 42] {
            let b = CliOpts::base(base_seed);
            v.push(b.clone());
            for p in &protos {
                let mut o = b.clone();
                o.protocol = *p;
                v.push(o);
            }
            for s in &seeds {
                let mut o = b.clone();
                o.seed = *s;
                v.push(o);
            }
            for r in &ranges {
                let mut o = b.clone();
                o.min = r.0;
                o.max = r.1;
                v.push(o);
            }
            for m in &muts {
                for uns in [false, true] {
                    for r in [None, Some(1.0)] {
                        let mut o = b.clone();
                        o.mutators = m.clone();
                        o.unsafe_mut = uns;
                        o.rate = r;
                        v.push(o);
                    }
                }
            }
            for (e, bf) in [(true, false), (false, true), (true, true)] {
                let mut o = b.clone();
                o.ext = e;
                o.buffer = bf;
                o.protocol = Some(5);
                v.push(o);
            }
            for r in &rates {
                let mut o = b.clone();
                o.rate = *r;
                o.mutators = vec!["all".into()];
                v.push(o);
            }
            // a flag on its own, at the protocols where it matters
            for p in [2u8, 4, 5] {
                for (uns, e, bf) in [(true, false, false), (true, true, true), (false, true, false), (false, false, true)] {
                    let mut o = b.clone();
                    o.protocol = Some(p);
                    o.unsafe_mut = uns;
                    o.ext = e;
                    o.buffer = bf;
                    v.push(o);
                }
                for m in [vec!["bitflip".to_string()], vec!["all".to_string()]] {
                    for r in [0.0, 1.0] {
                        let mut o = b.clone();
                        o.protocol = Some(p);
                        o.mutators = m.clone();
                        o.rate = Some(r);
                        v.push(o);
                    }
                }
            }
        }
        let mut i = 0usize;
        for p in &protos {
            for m in &muts {
                let mut o = CliOpts::base(seeds[i % seeds.len()]);
                o.protocol = *p;
                o.mutators = m.clone();
                let r = &ranges[i % ranges.len()];
                o.min = r.0;
                o.max = r.1;
                o.rate = rates[i % rates.len()];
                o.unsafe_mut = i % 2 == 0;
                o.ext = i % 3 == 0;
                o.buffer = i % 5 == 0;
                v.push(o);
                i += 1;
            }
        }
    } else {
        for p in &protos {
            for s in &seeds {
                for r in &ranges {
                    for m in &muts {
                        for rate in &rates {
                            if m.is_empty() && rate.is_some() && *rate != Some(0.5) {
                                continue;
                            }
                            for uns in [false, true] {
                                for (e, bf) in [(false, false), (true, true), (true, false), (false, true)] {
                                    if (e != bf) && *s != 7 {
                                        continue;
                                    }
                                    v.push(CliOpts { protocol: *p, seed: *s, min: r.0, max: r.1, mutators: m.clone(), rate: *rate, unsafe_mut: uns, ext: e, buffer: bf });
                                }
                            }
                        }
                    }
                }
            }
        }
    }
    v
}

fn scratch(tag: &str) -> String {
    let d = format!("{}/target/c13-{}-{}", verif_dir(), tag, std::process::id());
    let _ = std::fs::remove_dir_all(&d);
    let _ = std::fs::create_dir_all(&d);
    d
}

pub fn c13(tier: &str) -> i32 {
    let quick = tier == "quick";
    let mut rep = Report::new("C13", tier);
    let cli = std::env::var("VERIF_CLI").unwrap_or_else(|_| format!("{}/target/cli/release/pickle-fuzzer", verif_dir()));
    if !std::path::Path::new(&cli).exists() {
        rep.machinery.push(format!("CLI binary {cli} missing (run through bin/check)"));
        return rep.finish(false, "front ends");
    }
    // ---- CLI single-file mode
    let dir = scratch("single");
    let matrix = cli_matrix(quick);
    let results: Vec<Option<(String, String, serde_json::Value)>> = matrix
        .par_iter()
        .enumerate()
        .map(|(i, o)| {
            let file = format!("{dir}/{i}.pkl");
            let out = Command::new(&cli).arg(&file).args(o.argv()).output();
            let rj = json!({"kind":"cli","argv": o.argv(), "mode": "single"});
            let got = match out {
                Ok(x) if x.status.success() => std::fs::read(&file).map_err(|e| format!("no output file: {e}")),
                Ok(x) => Err(format!("exit {:?}: {}", x.status.code(), String::from_utf8_lossy(&x.stderr).lines().last().unwrap_or(""))),
                Err(e) => Err(format!("spawn: {e}")),
            };
            let _ = std::fs::remove_file(&file);
            let want = o.expected();
            match (got, want) {
                (Ok(a), Ok(b)) if a == b => None,
                (Ok(a), Ok(b)) => {
                    // which option is responsible? name the first option group that differs from the defaults
                    let what = if o.protocol.is_none() { "seed-mod-6-protocol" } else if !o.mutators.is_empty() { "mutator-options" } else if o.ext || o.buffer { "opt-in-flags" } else { "range-or-seed" };
                    Some((format!("cli-single-differs:{what}"), format!("pickle-fuzzer FILE {} wrote {} bytes, the library returns {} bytes for the corresponding configuration ({})", o.argv().join(" "), a.len(), b.len(), o.expected_cfg().describe()), rj))
                }
                (Err(e), Ok(_)) => Some(("cli-single-failed".into(), format!("pickle-fuzzer FILE {}: {e}", o.argv().join(" ")), rj)),
                (_, Err(e)) => Some(("library-failed".into(), format!("library generation failed for {}: {e}", o.argv().join(" ")), rj)),
            }
        })
        .collect();
    rep.transitions += matrix.len() as u64;
    rep.states += matrix.len() as u64;
    for r in results.into_iter().flatten() {
        rep.finding_raw(&r.0, &r.1, r.2);
    }
    let _ = std::fs::remove_dir_all(&dir);
    rep.set("cli_single_invocations", json!(matrix.len()));

    // ---- batch mode
    let mut batch_runs = 0;
    for samples in [0usize, 1, 3, 17] {
        for threads in [1, 2, 16] {
            let mut batch_opts = vec![CliOpts::base(7), CliOpts { protocol: Some(5), ext: true, buffer: true, mutators: vec!["all".into()], unsafe_mut: true, rate: Some(0.5), min: Some(5), max: Some(30), ..CliOpts::base(42) }];
            if samples == 3 && threads == 2 {
                // every option on its own (and the flag / rate corners) through the batch code path, which builds its generators separately
                let b = CliOpts { protocol: Some(4), ..CliOpts::base(11) };
                batch_opts.push(CliOpts { unsafe_mut: true, ..b.clone() });
                batch_opts.push(CliOpts { unsafe_mut: true, protocol: Some(5), ext: true, buffer: true, ..b.clone() });
                batch_opts.push(CliOpts { ext: true, ..b.clone() });
                batch_opts.push(CliOpts { buffer: true, protocol: Some(5), ..b.clone() });
                batch_opts.push(CliOpts { min: Some(3), max: Some(9), ..b.clone() });
                batch_opts.push(CliOpts { min: Some(9), max: Some(3), ..b.clone() });
                batch_opts.push(CliOpts { protocol: None, ..b.clone() });
                for m in [vec!["bitflip".to_string()], vec!["all".to_string()], vec!["offbyone".to_string(), "memoindex".to_string()], vec!["all".to_string(), "character".to_string()]] {
                    for r in [None, Some(0.0), Some(1.0), Some(7.5)] {
                        for uns in [false, true] {
                            batch_opts.push(CliOpts { mutators: m.clone(), rate: r, unsafe_mut: uns, ..b.clone() });
                        }
                    }
                }
            }
            for o in batch_opts {
                let d = scratch("batch");
                let out = Command::new(&cli).arg("--dir").arg(&d).arg("--samples").arg(samples.to_string()).args(o.argv()).env("RAYON_NUM_THREADS", threads.to_string()).output();
                batch_runs += 1;
                let rj = json!({"kind":"cli","argv": o.argv(), "mode":"batch", "samples": samples, "threads": threads});
                match out {
                    Ok(x) if x.status.success() => {
                        let mut names: Vec<String> = std::fs::read_dir(&d).map(|rd| rd.filter_map(|e| e.ok()).map(|e| e.file_name().to_string_lossy().to_string()).collect()).unwrap_or_default();
                        names.sort();
                        let mut want: Vec<String> = (0..samples).map(|i| format!("{i}.pkl")).collect();
                        want.sort();
                        if names != want {
                            rep.finding_raw("batch-file-set", &format!("--samples {samples}: directory holds {names:?}, expected exactly 0.pkl..{}.pkl", samples as i64 - 1), rj.clone());
                        }
                        let exp = o.expected().unwrap_or_default();
                        for n in &names {
                            let b = std::fs::read(format!("{d}/{n}")).unwrap_or_default();
                            if b != exp {
                                rep.finding_raw("batch-file-differs", &format!("batch file {n} ({} bytes) differs from the library result ({} bytes) for {}", b.len(), exp.len(), o.argv().join(" ")), rj.clone());
                                break;
                            }
                        }
                    }
                    Ok(x) => rep.finding_raw("batch-failed", &format!("batch mode exit {:?} for --samples {samples} {}", x.status.code(), o.argv().join(" ")), rj),
                    Err(e) => rep.machinery.push(format!("spawn failed: {e}")),
                }
                let _ = std::fs::remove_dir_all(&d);
            }
        }
    }
    // exit status: 0 only if every file was written
    {
        let d = scratch("batch-unwritable");
        // make one target name a directory: writing 2.pkl must fail, so the run must not exit 0
        let _ = std::fs::create_dir_all(format!("{d}/2.pkl"));
        let out = Command::new(&cli).arg("--dir").arg(&d).arg("--samples").arg("5").args(["--seed", "3"]).output();
        batch_runs += 1;
        match out {
            Ok(x) if x.status.success() => rep.finding_raw("batch-exit-0-despite-write-error", "batch mode exited 0 although 2.pkl could not be written", json!({"kind":"cli","mode":"batch","what":"2.pkl is a directory"})),
            Ok(_) => {
                // the others must still be there and correct
                let exp = CliOpts::base(3).expected().unwrap_or_default();
                for i in [0, 1, 3, 4] {
                    if std::fs::read(format!("{d}/{i}.pkl")).unwrap_or_default() != exp {
                        rep.finding_raw("batch-partial-missing", &format!("{i}.pkl missing or wrong after a write error on 2.pkl"), json!({"kind":"cli","mode":"batch"}));
                    }
                }
            }
            Err(e) => rep.machinery.push(format!("spawn failed: {e}")),
        }
        let _ = std::fs::remove_dir_all(&d);
        let d2 = scratch("batch-nodir");
        let _ = std::fs::write(format!("{d2}/file"), b"x");
        let out = Command::new(&cli).arg("--dir").arg(format!("{d2}/file/sub")).arg("--samples").arg("2").args(["--seed", "3"]).output();
        batch_runs += 1;
        if let Ok(x) = out {
            if x.status.success() {
                rep.finding_raw("batch-exit-0-without-directory", "batch mode exited 0 although the directory could not be created", json!({"kind":"cli","mode":"batch"}));
            }
        }
        let _ = std::fs::remove_dir_all(&d2);
    }
    rep.transitions += batch_runs;
    rep.set("cli_batch_invocations", json!(batch_runs));

    // ---- action wrapper script
    let script = format!("{}/scripts/action-run.sh", repo_dir());
    let mut action_runs = 0;
    if std::path::Path::new(&script).exists() {
        let bindir = scratch("path");
        let _ = std::os::unix::fs::symlink(&cli, format!("{bindir}/pickle-fuzzer"));
        let path = format!("{bindir}:{}", std::env::var("PATH").unwrap_or_default());
        let singles: Vec<(Vec<(&str, String)>, CliOpts)> = {
            let mut v: Vec<(Vec<(&str, String)>, CliOpts)> = vec![];
            let b = CliOpts::base(9);
            v.push((vec![], b.clone()));
            v.push((vec![("INPUT_PROTOCOL", "4".into())], CliOpts { protocol: Some(4), ..b.clone() }));
            v.push((vec![("INPUT_MIN_OPCODES", "3".into()), ("INPUT_MAX_OPCODES", "8".into())], CliOpts { min: Some(3), max: Some(8), ..b.clone() }));
            v.push((vec![("INPUT_MAX_OPCODES", "70".into())], CliOpts { max: Some(70), ..b.clone() }));
            v.push((vec![("INPUT_MUTATORS", "bitflip, character".into())], CliOpts { mutators: vec!["bitflip".into(), "character".into()], ..b.clone() }));
            v.push((vec![("INPUT_MUTATORS", "all".into()), ("INPUT_MUTATION_RATE", "1.0".into())], CliOpts { mutators: vec!["all".into()], rate: Some(1.0), ..b.clone() }));
            v.push((vec![("INPUT_MUTATORS", "all".into()), ("INPUT_UNSAFE_MUTATIONS", "true".into()), ("INPUT_MUTATION_RATE", "0.5".into())], CliOpts { mutators: vec!["all".into()], unsafe_mut: true, rate: Some(0.5), ..b.clone() }));
            v.push((vec![("INPUT_MUTATORS", "all,bitflip".into()), ("INPUT_MUTATION_RATE", "1.0".into())], CliOpts { mutators: vec!["all".into(), "bitflip".into()], rate: Some(1.0), ..b.clone() }));
            v.push((vec![("INPUT_MUTATORS", "offbyone, all".into()), ("INPUT_UNSAFE_MUTATIONS", "true".into()), ("INPUT_MUTATION_RATE", "0.5".into())], CliOpts { mutators: vec!["offbyone".into(), "all".into()], unsafe_mut: true, rate: Some(0.5), ..b.clone() }));
            v.push((vec![("INPUT_UNSAFE_MUTATIONS", "true".into()), ("INPUT_PROTOCOL", "4".into())], CliOpts { unsafe_mut: true, protocol: Some(4), ..b.clone() }));
            v.push((vec![("INPUT_MUTATORS", "bitflip".into()), ("INPUT_MUTATION_RATE", "0".into()), ("INPUT_PROTOCOL", "4".into())], CliOpts { mutators: vec!["bitflip".into()], rate: Some(0.0), protocol: Some(4), ..b.clone() }));
            v.push((vec![("INPUT_MUTATORS", "offbyone, bitflip".into()), ("INPUT_MUTATION_RATE", "1.0".into())], CliOpts { mutators: vec!["offbyone".into(), "bitflip".into()], rate: Some(1.0), ..b.clone() }));
            v.push((vec![("INPUT_MUTATORS", "stringlen,character,boundary".into()), ("INPUT_MUTATION_RATE", "0.5".into())], CliOpts { mutators: vec!["stringlen".into(), "character".into(), "boundary".into()], rate: Some(0.5), ..b.clone() }));
            v.push((vec![("INPUT_MUTATORS", "offbyone,bitflip,offbyone".into()), ("INPUT_MUTATION_RATE", "0.5".into())], CliOpts { mutators: vec!["offbyone".into(), "bitflip".into(), "offbyone".into()], rate: Some(0.5), ..b.clone() }));
            v.push((vec![("INPUT_MUTATORS", "memoindex,offbyone".into()), ("INPUT_UNSAFE_MUTATIONS", "yes".into())], CliOpts { mutators: vec!["memoindex".into(), "offbyone".into()], unsafe_mut: true, ..b.clone() }));
            v.push((vec![("INPUT_UNSAFE_MUTATIONS", "false".into()), ("INPUT_MUTATORS", "typeconfusion".into())], CliOpts { mutators: vec!["typeconfusion".into()], ..b.clone() }));
            v.push((vec![("INPUT_ALLOW_EXT", "true".into()), ("INPUT_PROTOCOL", "2".into())], CliOpts { ext: true, protocol: Some(2), ..b.clone() }));
            v.push((vec![("INPUT_ALLOW_BUFFER", "1".into()), ("INPUT_PROTOCOL", "5".into())], CliOpts { buffer: true, protocol: Some(5), ..b.clone() }));
            v.push((vec![("INPUT_ALLOW_EXT", "no".into()), ("INPUT_ALLOW_BUFFER", "0".into()), ("INPUT_PROTOCOL", "5".into())], CliOpts { protocol: Some(5), ..b.clone() }));
            v
        };
        for (envs, opts) in &singles {
            for mode in ["file", "dir", "args"] {
                let d = scratch("action");
                let mut cmd = Command::new("bash");
                cmd.arg(&script).env_clear().env("PATH", &path).env("HOME", "/tmp");
                let file = format!("{d}/out.pkl");
                let outdir = format!("{d}/out");
                match mode {
                    "file" => {
                        cmd.env("INPUT_OUTPUT_FILE", &file).env("INPUT_SEED", opts.seed.to_string());
                        for (k, v) in envs {
                            cmd.env(k, v);
                        }
                    }
                    "dir" => {
                        cmd.env("INPUT_OUTPUT_DIR", &outdir).env("INPUT_SAMPLES", "2").env("INPUT_SEED", opts.seed.to_string());
                        for (k, v) in envs {
                            cmd.env(k, v);
                        }
                    }
                    _ => {
                        cmd.env("INPUT_ARGS", format!("{} {}", file, opts.argv().join(" ")));
                    }
                }
                let out = cmd.output();
                action_runs += 1;
                let rj = json!({"kind":"action","mode":mode,"env": envs.iter().map(|(k,v)| format!("{k}={v}")).collect::<Vec<_>>(), "argv": opts.argv()});
                let exp = opts.expected().unwrap_or_default();
                match out {
                    Ok(x) if x.status.success() => {
                        let got: Vec<Vec<u8>> = if mode == "dir" {
                            (0..2).map(|i| std::fs::read(format!("{outdir}/{i}.pkl")).unwrap_or_default()).collect()
                        } else {
                            vec![std::fs::read(&file).unwrap_or_default()]
                        };
                        if got.iter().any(|g| *g != exp) {
                            rep.finding_raw(&format!("action-differs:{mode}:{}", envs.first().map(|e| e.0).unwrap_or("base")), &format!("action-run.sh ({mode}, {:?}) produced {} bytes, the library returns {} for {}", envs, got[0].len(), exp.len(), opts.argv().join(" ")), rj);
                        }
                    }
                    Ok(x) => rep.finding_raw(&format!("action-failed:{mode}"), &format!("action-run.sh exit {:?}: {}", x.status.code(), String::from_utf8_lossy(&x.stderr).lines().last().unwrap_or("")), rj),
                    Err(e) => rep.machinery.push(format!("cannot run bash: {e}")),
                }
                let _ = std::fs::remove_dir_all(&d);
            }
        }
        let _ = std::fs::remove_dir_all(&bindir);
    } else {
        rep.machinery.push(format!("{script} not found"));
    }
    rep.transitions += action_runs;
    rep.set("action_wrapper_invocations", json!(action_runs));

    // ---- Python bindings
    let mut py_calls = 0u64;
    match std::env::var("VERIF_PYPKG") {
        Ok(pkg) if std::path::Path::new(&format!("{pkg}/pickle_fuzzer/_native.so")).exists() => {
            let inputs: Vec<Vec<u8>> = vec![vec![], vec![0xff; 32], (1..=70u8).collect()];
            let mut seqs: Vec<serde_json::Value> = vec![];
            // Generator(p, seed) -> [set_opcode_range] -> (generate | generate_from_bytes | reset)^<=n
            let calls: Vec<serde_json::Value> = {
                let mut v = vec![json!({"call":"generate"}), json!({"call":"reset"})];
                for i in &inputs {
                    v.push(json!({"call":"generate_from_bytes","data":lexer::hex(i)}));
                }
                v
            };
            let maxlen = if quick { 2 } else { 3 };
            let mut tails: Vec<Vec<serde_json::Value>> = vec![vec![]];
            let mut all_tails: Vec<Vec<serde_json::Value>> = vec![];
            for _ in 0..maxlen {
                let mut next = vec![];
                for t in &tails {
                    for c in &calls {
                        let mut t2 = t.clone();
                        t2.push(c.clone());
                        next.push(t2);
                    }
                }
                all_tails.extend(next.iter().cloned());
                tails = next;
            }
            for p in 0..=5u8 {
                for seed in [Some(42u64), Some(0)] {
                    for range in [None, Some((5usize, 10usize)), Some((0, 0)), Some((9, 3))] {
                        if quick && p % 2 == 1 && range.is_some() && range != Some((5, 10)) {
                            continue;
                        }
                        for t in &all_tails {
                            let mut cs = vec![];
                            if let Some((a, b)) = range {
                                cs.push(json!({"call":"set_opcode_range","min":a,"max":b}));
                            }
                            cs.extend(t.iter().cloned());
                            seqs.push(json!({"object":"Generator","protocol":p,"seed":seed,"calls":cs}));
                        }
                    }
                }
                // range changed in the middle of a sequence
                seqs.push(json!({"object":"Generator","protocol":p,"seed":5,"calls":[{"call":"generate"},{"call":"set_opcode_range","min":2,"max":6},{"call":"generate"},{"call":"generate_from_bytes","data":"ffff"}]}));
                // PickleMutator
                for seed in [None, Some(3u64)] {
                    for i in &inputs {
                        for max_size in [0usize, 1, 10, 1_000_000] {
                            seqs.push(json!({"object":"PickleMutator","protocol":p,"seed":seed,"calls":[{"call":"mutate","data":lexer::hex(i),"max_size":max_size},{"call":"mutate","data":lexer::hex(&inputs[1]),"max_size":max_size}]}));
                        }
                    }
                }
            }
            let py_script = format!("{}/py/front.py", verif_dir());
            let input = serde_json::to_vec(&seqs).unwrap();
            let mut got: Option<Vec<Vec<serde_json::Value>>> = None;
            let mut last_err = String::new();
            for py in ["python3-vt", "python3"] {
                use std::io::Write;
                let child = Command::new(py).arg(&py_script).env("VERIF_PYPKG", &pkg).stdin(std::process::Stdio::piped()).stdout(std::process::Stdio::piped()).stderr(std::process::Stdio::piped()).spawn();
                let Ok(mut ch) = child else { continue };
                let mut stdin = ch.stdin.take().unwrap();
                let inp = input.clone();
                let w = std::thread::spawn(move || {
                    let _ = stdin.write_all(&inp);
                });
                let out = ch.wait_with_output();
                let _ = w.join();
                match out {
                    Ok(o) if o.status.success() => {
                        if let Ok(v) = serde_json::from_slice::<Vec<Vec<serde_json::Value>>>(&o.stdout) {
                            got = Some(v);
                            break;
                        }
                        last_err = "output not JSON".into();
                    }
                    Ok(o) => last_err = format!("{py}: {}", String::from_utf8_lossy(&o.stderr).lines().last().unwrap_or("")),
                    Err(e) => last_err = format!("{py}: {e}"),
                }
            }
            match got {
                None => rep.machinery.push(format!("python front end could not be driven: {last_err}")),
                Some(res) => {
                    for (seq, r) in seqs.iter().zip(res.iter()) {
                        // replay on the library
                        let p = seq["protocol"].as_u64().unwrap() as u8;
                        let mut cfg = Cfg::new(p);
                        let seed = seq["seed"].as_u64();
                        let mut g = cfg.build();
                        if let Some(s) = seed {
                            g = g.with_seed(s);
                        }
                        for (ci, c) in seq["calls"].as_array().unwrap().iter().enumerate() {
                            py_calls += 1;
                            let want: Option<Vec<u8>> = match c["call"].as_str().unwrap() {
                                "set_opcode_range" => {
                                    // documented: changes the range and leaves the other settings (seed, protocol) in force
                                    cfg.min = c["min"].as_u64().unwrap() as usize;
                                    cfg.max = c["max"].as_u64().unwrap() as usize;
                                    g.min_opcodes = cfg.min;
                                    g.max_opcodes = cfg.max;
                                    None
                                }
                                "reset" => {
                                    g.reset();
                                    None
                                }
                                "generate" => {
                                    if seed.is_none() {
                                        continue;
                                    }
                                    run_on(&mut g, Entropy::Seeded, false, false).out.ok()
                                }
                                "generate_from_bytes" => run_on(&mut g, Entropy::Bytes(&lexer::unhex(c["data"].as_str().unwrap())), false, false).out.ok(),
                                "mutate" => {
                                    let full = run_on(&mut g, Entropy::Bytes(&lexer::unhex(c["data"].as_str().unwrap())), false, false).out.ok();
                                    let ms = c["max_size"].as_u64().unwrap() as usize;
                                    full.map(|b| if b.len() <= ms { b } else { b[..ms].to_vec() })
                                }
                                _ => None,
                            };
                            let got_hex = r.get(ci).and_then(|x| x.as_str()).map(|s| s.to_string());
                            let want_hex = want.as_ref().map(|b| lexer::hex(b));
                            if got_hex != want_hex {
                                let after_range = seq["calls"].as_array().unwrap()[..ci].iter().any(|x| x["call"] == "set_opcode_range");
                                let class = format!("python-differs:{}:{}{}", seq["object"].as_str().unwrap(), c["call"].as_str().unwrap(), if after_range { ":after-set_opcode_range" } else { "" });
                                rep.finding_raw(&class, &format!("Python {} sequence {}: call #{ci} returned {} but the library returns {}", seq["object"], seq, got_hex.as_deref().map(|s| &s[..s.len().min(40)]).unwrap_or("None"), want_hex.as_deref().map(|s| &s[..s.len().min(40)]).unwrap_or("None")), json!({"kind":"python","sequence":seq}));
                                break;
                            }
                        }
                    }
                    rep.set("python_sequences", json!(seqs.len()));
                }
            }
        }
        _ => rep.machinery.push("python module not built (run through bin/check)".into()),
    }
    rep.transitions += py_calls;
    rep.states += py_calls;
    rep.sample(json!({"cli": "pickle-fuzzer FILE --seed 7 --mutators all --unsafe-mutations --mutation-rate 1", "oracle": "bytes == Generator::new(V1 = 7 mod 6)...with_seed(7).generate() in-process"}));
    rep.sample(json!({"python": "Generator(3, 42); set_opcode_range(5, 10); generate()", "oracle": "bytes == library with seed 42 and range (5,10)"}));
    rep.assumptions = vec![
        "option -> builder mapping is the documented one (README / --help); --unsafe-mutations and --mutation-rate describe the mutators and are ignored without any".into(),
        "quick: every single-option deviation from two base points plus a diagonal mix; thorough: the full product of the option grid".into(),
        "the front ends are built from the working tree with hooks off; the oracle library is the hooks-on build of the same tree".into(),
    ];
    rep.finish(true, "every option combination of the stated grid / every call sequence up to the stated length is executed through the real front end and compared with the library in-process")
}
