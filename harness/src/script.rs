//! Fuzzer-byte scripts: how answers to entropy draws are encoded, and the value alphabets.

use crate::trace::DrawRec;

/// number of bytes `Unstructured::int_in_range` reads for a range with `delta = hi - lo`
pub fn bytes_for_delta(delta: u64) -> usize {
    let mut n = 0;
    while n < 8 && (delta >> (8 * n)) > 0 {
        n += 1;
    }
    n
}

/// encode the answer `idx` (offset from the start of the range) of a `choose_index(n)` / `gen_range` draw
pub fn enc_index(idx: u64, n: u64) -> Vec<u8> {
    if n <= 1 {
        return vec![];
    }
    let w = bytes_for_delta(n - 1);
    // big-endian
    (0..w).rev().map(|k| (idx >> (8 * k)) as u8).collect()
}

/// encode an intended result for a traced draw; `None` if the answer cannot be produced
pub fn enc_answer(d: &DrawRec, want: u64) -> Option<Vec<u8>> {
    match d.method {
        "choose_index" => {
            if d.a == 0 || want >= d.a {
                return None;
            }
            Some(enc_index(want, d.a))
        }
        "gen_range" => {
            if d.a >= d.b || want < d.a || want >= d.b {
                return None;
            }
            Some(enc_index(want - d.a, d.b - d.a))
        }
        "gen_ascii_char" => None, // encoded through index_of_ascii
        "gen_bool" => Some(vec![want as u8 & 1]),
        "gen_u8" => Some(vec![want as u8]),
        "gen_u16" => Some((want as u16).to_le_bytes().to_vec()),
        "gen_u32" => Some((want as u32).to_le_bytes().to_vec()),
        "gen_i32" => Some((want as u32).to_le_bytes().to_vec()),
        "gen_i64" | "gen_f64" => Some(want.to_le_bytes().to_vec()),
        _ => None,
    }
}

pub const ASCII_CHARS: &[u8] =
    b"abcdefghijklmnopqrstuvwxyzABCDEFGHIJKLMNOPQRSTUVWXYZ0123456789 !\"#$%&'()*+,-./:;<=>?@[\\]^_`{|}~";

pub const F64_ALPHABET: [f64; 12] = [
    0.0,
    -0.0,
    0.5,
    1.0,
    1.0 + f64::EPSILON,
    2.0,
    -1.0,
    f64::INFINITY,
    f64::NEG_INFINITY,
    f64::NAN,
    f64::MIN_POSITIVE,
    f64::MAX,
];

/// module-table indices with special shapes (filled by `init_module_specials`)
pub static MODULE_SPECIALS: std::sync::OnceLock<Vec<u64>> = std::sync::OnceLock::new();
pub static MODULE_COUNT: std::sync::OnceLock<u64> = std::sync::OnceLock::new();

pub fn init_module_specials(repo: &str) {
    let path = format!("{repo}/data/stdlib_complete.txt");
    let content = std::fs::read_to_string(&path).unwrap_or_default();
    let lines: Vec<&str> = content.lines().collect();
    let mut sp: Vec<u64> = vec![];
    if !lines.is_empty() {
        sp.push(0);
        sp.push(1);
        sp.push(lines.len() as u64 - 1);
        if let Some(i) = lines.iter().position(|l| !l.contains('.')) {
            sp.push(i as u64);
        }
        if let Some(i) = lines.iter().position(|l| l.matches('.').count() >= 3) {
            sp.push(i as u64);
        }
        if let Some(i) = lines.iter().position(|l| !l.is_ascii() || l.contains('\\') || l.contains(' ')) {
            sp.push(i as u64);
        }
        if let Some((i, _)) = lines.iter().enumerate().max_by_key(|(_, l)| l.len()) {
            sp.push(i as u64);
        }
    }
    sp.sort_unstable();
    sp.dedup();
    let _ = MODULE_SPECIALS.set(sp);
    let _ = MODULE_COUNT.set(lines.len() as u64);
}

/// non-default alternative answers (as (encoded bytes, intended result or None)) for a value draw.
/// The default answer is the one all-zero bytes give.
pub fn alternatives(d: &DrawRec) -> Vec<(Vec<u8>, Option<u64>)> {
    let mut out: Vec<(Vec<u8>, Option<u64>)> = Vec::new();
    let push_idx = |vals: Vec<u64>, lo: u64, n: u64, out: &mut Vec<(Vec<u8>, Option<u64>)>| {
        let mut vals = vals;
        vals.sort_unstable();
        vals.dedup();
        for v in vals {
            if v == 0 || v >= n {
                continue; // 0 is the default
            }
            out.push((enc_index(v, n), Some(lo + v)));
        }
    };
    match d.method {
        "choose_index" | "gen_range" => {
            let (lo, n) = if d.method == "choose_index" { (0, d.a) } else { (d.a, d.b.saturating_sub(d.a)) };
            if n <= 1 {
                return out;
            }
            if n <= 16 || n == 32 || n == 64 {
                push_idx((0..n).collect(), lo, n, &mut out);
            } else {
                let mut v = vec![1, 2, n / 2, n - 2, n - 1];
                if Some(&n) == MODULE_COUNT.get() {
                    v.extend(MODULE_SPECIALS.get().cloned().unwrap_or_default());
                }
                push_idx(v, lo, n, &mut out);
            }
        }
        "gen_ascii_char" => {
            for c in [b'\'', b'"', b'\\', b' ', b'~', b'b', b'Z', b'0', b'\n'] {
                if let Some(i) = ASCII_CHARS.iter().position(|&x| x == c) {
                    if i != 0 {
                        out.push((vec![i as u8], Some(c as u64)));
                    }
                }
            }
        }
        "gen_bool" => out.push((vec![1], Some(1))),
        "gen_u8" => {
            for v in [1u8, 2, 31, 32, 0x27, 0x5c, 0x0a, 0x7f, 0x80, 0xff] {
                out.push((vec![v], Some(v as u64)));
            }
        }
        "gen_u16" => {
            for v in [1u16, 0x7fff, 0x8000, 0xfffe, 0xffff] {
                out.push((v.to_le_bytes().to_vec(), Some(v as u64)));
            }
        }
        "gen_u32" => {
            for v in [1u32, 0x7fff_fffe, 0x7fff_ffff, 0x8000_0000, 0xffff_fffe, 0xffff_ffff] {
                out.push((v.to_le_bytes().to_vec(), Some(v as u64)));
            }
        }
        "gen_i32" => {
            for v in [1i32, -1, 2, 255, 256, 65535, 65536, i32::MAX, i32::MIN] {
                out.push((v.to_le_bytes().to_vec(), Some(v as i64 as u64)));
            }
        }
        "gen_i64" => {
            for v in [1i64, -1, i64::MAX, i64::MIN] {
                out.push((v.to_le_bytes().to_vec(), Some(v as u64)));
            }
        }
        "gen_f64" => {
            for v in F64_ALPHABET.iter().skip(1) {
                out.push((v.to_bits().to_le_bytes().to_vec(), Some(v.to_bits())));
            }
        }
        "gen_bytes" => {
            // payload bytes: all 0xff and 0x27 variants
            let n = d.a as usize;
            if n > 0 {
                out.push((vec![0xff; n], None));
                out.push((vec![0x27; n], None));
            }
        }
        _ => {}
    }
    out
}

/// the two answers of a mutator gate draw (a `gen_f64` inside a mutation context):
/// all-zero bytes = 0.0 (the default), 2.0 declines at every rate in [0,1]
pub fn gate_alternatives() -> Vec<(Vec<u8>, Option<u64>)> {
    vec![(2.0f64.to_bits().to_le_bytes().to_vec(), Some(2.0f64.to_bits()))]
}
