//! Evidence files, replay files, known findings, exit codes.

use crate::explore::{Found, Stats};
use crate::lexer;
use serde_json::{json, Value};
use std::time::Instant;

pub fn verif_dir() -> String {
    std::env::var("VERIF_DIR").unwrap_or_else(|_| "/verif".into())
}
/// where evidence/ and replays/ are written (mutant runs redirect this away from /verif)
pub fn out_dir() -> String {
    std::env::var("VERIF_OUT_DIR").unwrap_or_else(|_| verif_dir())
}
pub fn repo_dir() -> String {
    std::env::var("VERIF_REPO").unwrap_or_else(|_| "/repo".into())
}
/// first seed of a sweep window of `n` PRNG seeds: VERIF_SEED rotates the window (seed 0 = window starting at 0)
pub fn sweep_base(n: u64) -> u64 {
    (seed().max(0) as u64).wrapping_mul(n)
}
pub fn seed() -> i64 {
    std::env::var("VERIF_SEED").ok().and_then(|s| s.parse().ok()).unwrap_or(0)
}

pub struct Known {
    entries: Vec<(String, String, String)>, // (property, class-prefix, description)
}

impl Known {
    pub fn load() -> Known {
        let path = format!("{}/known-findings.json", verif_dir());
        let mut entries = vec![];
        if let Ok(s) = std::fs::read_to_string(&path) {
            if let Ok(v) = serde_json::from_str::<Value>(&s) {
                for e in v["findings"].as_array().cloned().unwrap_or_default() {
                    entries.push((
                        e["property"].as_str().unwrap_or("").to_string(),
                        e["class"].as_str().unwrap_or("").to_string(),
                        e["what"].as_str().unwrap_or("").to_string(),
                    ));
                }
            }
        }
        Known { entries }
    }
    /// exact class match only: a different failing site/rule of the same property is not covered
    pub fn matches(&self, prop: &str, class: &str) -> Option<&str> {
        self.entries.iter().find(|(p, c, _)| p == prop && c == class).map(|(_, _, w)| w.as_str())
    }
}

pub struct Report {
    pub prop: &'static str,
    pub tier: String,
    pub t0: Instant,
    pub coverage: serde_json::Map<String, Value>,
    pub assumptions: Vec<String>,
    pub violations: Vec<(String, String, Value)>, // (class, msg, replay json)
    pub known_hits: Vec<(String, String)>,
    pub machinery: Vec<String>,
    /// machinery errors that make the oracle itself untrustworthy (reference model disagrees with CPython): no verdict at all
    pub machinery_fatal: Vec<String>,
    pub states: u64,
    pub transitions: u64,
    pub validated: u64,
    pub samples: Vec<Value>,
    /// the check uses the reference model bound to CPython
    pub model_bound: bool,
    known: Known,
}

impl Report {
    pub fn new(prop: &'static str, tier: &str) -> Report {
        Report {
            prop,
            tier: tier.to_string(),
            t0: Instant::now(),
            coverage: serde_json::Map::new(),
            assumptions: vec![],
            violations: vec![],
            known_hits: vec![],
            machinery: vec![],
            machinery_fatal: vec![],
            states: 0,
            transitions: 0,
            validated: 0,
            samples: vec![],
            model_bound: false,
            known: Known::load(),
        }
    }

    pub fn set(&mut self, k: &str, v: Value) {
        self.coverage.insert(k.to_string(), v);
    }

    pub fn add_stats(&mut self, label: &str, st: &Stats) {
        self.states += st.states;
        self.transitions += st.transitions;
        for e in &st.machinery_errors {
            self.machinery.push(format!("{label}: {e}"));
        }
        if st.no_output_runs > 0 && self.prop != "C09" {
            self.machinery.push(format!(
                "{label}: {} generations returned no bytes (panic or Err) and could not be judged by this property's oracle — that is C09's finding; first: {}",
                st.no_output_runs,
                st.first_no_output.clone().unwrap_or_default()
            ));
        }
        let runs = self.coverage.entry("explorations").or_insert_with(|| json!([]));
        runs.as_array_mut().unwrap().push(json!({
            "config": label,
            "states": st.states, "transitions": st.transitions, "cut_by_box": st.pruned,
            "bfs_levels": st.levels, "cap_hit": st.cap_hit,
            "fringe_states_depth_plus_1": st.fringe_states, "fringe_consumer_transitions": st.fringe_transitions,
            "enabled_opcodes_no_enumerated_choice_answer_selects": st.unselectable_choices,
            "deviation_runs": st.deviation_runs, "abstraction_splits": st.abstraction_splits, "coarse_key_splits_first_pass": st.coarse_key_splits,
            "longest_script_bytes": st.max_script_len,
            "transitions_per_chosen_opcode": st.op_transitions.iter().map(|(k,v)| (lexer::name(*k).to_string(), json!(v))).collect::<serde_json::Map<_,_>>(),
        }));
    }

    /// a finding from an exploration with a bytes-script witness
    pub fn finding(&mut self, fd: &Found) {
        self.finding_raw(
            &fd.finding.class,
            &fd.finding.msg,
            json!({
                "kind": "bytes",
                "config": fd.cfg.to_json(),
                "script_hex": lexer::hex(&fd.script),
            }),
        );
    }

    pub fn finding_raw(&mut self, class: &str, msg: &str, replay: Value) {
        if self.known.matches(self.prop, class).is_some() {
            if !self.known_hits.iter().any(|(c, _)| c == class) {
                self.known_hits.push((class.to_string(), msg.to_string()));
            }
        } else if !self.violations.iter().any(|(c, _, _)| c == class) {
            self.violations.push((class.to_string(), msg.to_string(), replay));
        }
    }

    pub fn sample(&mut self, v: Value) {
        if self.samples.len() < 12 {
            self.samples.push(v);
        }
    }

    /// write evidence, print verdict lines, return the process exit code
    pub fn finish(mut self, exhaustive: bool, rule: &str) -> i32 {
        let dir = out_dir();
        let wall = self.t0.elapsed().as_secs_f64();
        for (class, msg) in &self.known_hits {
            println!("KNOWN-FINDING: property={} {} — {}", self.prop, class, msg);
        }
        let mut replay_paths = vec![];
        // a violation found by one sub-check stays a violation when another sub-check could not run (coverage problem);
        // only an untrustworthy oracle (fatal machinery error) suppresses verdicts
        if self.machinery_fatal.is_empty() {
            let _ = std::fs::create_dir_all(format!("{dir}/replays"));
            for (i, (class, msg, replay)) in self.violations.iter().enumerate() {
                let path = format!("{dir}/replays/{}-{}-{}.json", self.prop, self.tier, i);
                let mut r = replay.clone();
                r["property"] = json!(self.prop);
                r["class"] = json!(class);
                r["message"] = json!(msg);
                let _ = std::fs::write(&path, serde_json::to_string_pretty(&r).unwrap());
                println!("VIOLATION property={} replay={}", self.prop, path);
                println!("  {class}: {msg}");
                replay_paths.push(path);
            }
        }
        if self.samples.is_empty() {
            self.samples.push(json!("no sample recorded"));
        }
        self.coverage.insert("states".into(), json!(self.states.max(1)));
        self.coverage.insert("transitions".into(), json!(self.transitions.max(1)));
        // E1 checks: outputs replayed through CPython (binding of the reference model); checks that have no separate
        // model explore the implementation itself, so every transition is an implementation trace
        let validated = if self.validated > 0 || self.model_bound { self.validated } else { self.transitions };
        self.coverage.insert("traces_validated_against_impl".into(), json!(validated));
        self.coverage.insert(
            "traces_validated_note".into(),
            json!(if self.validated > 0 || self.model_bound { "distinct generator outputs replayed through CPython pickletools.genops/dis and compared with the reference lexer/machine verdicts" } else { "no separate model: every transition counted is an execution of the real implementation" }),
        );
        self.coverage.insert("samples".into(), json!(self.samples));
        self.coverage.insert("exhaustive".into(), json!(exhaustive && self.machinery.is_empty() && self.machinery_fatal.is_empty()));
        self.coverage.insert("rule".into(), json!(rule));
        self.coverage.insert("known_findings_hit".into(), json!(self.known_hits.iter().map(|x| x.0.clone()).collect::<Vec<_>>()));
        if !self.machinery.is_empty() || !self.machinery_fatal.is_empty() {
            self.coverage.insert("machinery_errors".into(), json!(self.machinery_fatal.iter().chain(self.machinery.iter()).take(20).collect::<Vec<_>>()));
        }
        let ev = json!({
            "property_id": self.prop,
            "tier": self.tier,
            "seed": seed(),
            "level": "model_checking",
            "coverage": Value::Object(self.coverage.clone()),
            "assumptions": self.assumptions,
            "wall_s": wall,
            "violations": self.violations.len(),
        });
        let _ = std::fs::create_dir_all(format!("{dir}/evidence"));
        let _ = std::fs::write(format!("{dir}/evidence/{}.json", self.prop), serde_json::to_string_pretty(&ev).unwrap());
        println!(
            "{} {}: states={} transitions={} validated_against_cpython={} violations={} known={} wall={:.1}s",
            self.prop,
            self.tier,
            self.states,
            self.transitions,
            self.validated,
            self.violations.len(),
            self.known_hits.len(),
            wall
        );
        for m in self.machinery_fatal.iter().take(10) {
            println!("MACHINERY-ERROR {m}");
        }
        for m in self.machinery.iter().take(10) {
            println!("MACHINERY-ERROR {m}");
        }
        if !self.machinery_fatal.is_empty() {
            return 2;
        }
        if !self.violations.is_empty() {
            return 1;
        }
        if !self.machinery.is_empty() {
            return 2;
        }
        0
    }
}
