//! C14 — no leaks: a counting global allocator with a per-thread live-bytes counter; the generator is `!Send`,
//! so everything it allocates is freed on the same thread. Every explored path is re-run untraced between
//! two readings of the counter.

use crate::checks_e1::FULL;
use crate::explore::{Explorer, Finding, FrameSel, Opts, RunCtx};
use crate::hist::Call;
use crate::lexer;
use crate::report::Report;
use crate::run::{Cfg, ZERO_TAIL};
use pickle_fuzzer::verif::Graph;
use rayon::prelude::*;
use serde_json::json;
use std::alloc::{GlobalAlloc, Layout, System};
use std::cell::Cell;
use std::panic::{catch_unwind, AssertUnwindSafe};

pub struct Counting;

/// process-wide live bytes (all threads)
pub static PROCESS_LIVE: std::sync::atomic::AtomicIsize = std::sync::atomic::AtomicIsize::new(0);
/// the process-wide counter is only maintained while this is set (a single shared atomic updated on every
/// allocation of 16 busy threads would serialise them)
pub static TRACK_PROCESS: std::sync::atomic::AtomicBool = std::sync::atomic::AtomicBool::new(false);

thread_local! {
    static LIVE: Cell<isize> = const { Cell::new(0) };
    static ALLOCS: Cell<usize> = const { Cell::new(0) };
}

unsafe impl GlobalAlloc for Counting {
    unsafe fn alloc(&self, l: Layout) -> *mut u8 {
        let p = System.alloc(l);
        if !p.is_null() {
            let _ = LIVE.try_with(|c| c.set(c.get() + l.size() as isize));
            let _ = ALLOCS.try_with(|c| c.set(c.get() + 1));
            if TRACK_PROCESS.load(std::sync::atomic::Ordering::Relaxed) {
                PROCESS_LIVE.fetch_add(l.size() as isize, std::sync::atomic::Ordering::Relaxed);
            }
        }
        p
    }
    unsafe fn dealloc(&self, p: *mut u8, l: Layout) {
        System.dealloc(p, l);
        let _ = LIVE.try_with(|c| c.set(c.get() - l.size() as isize));
        if TRACK_PROCESS.load(std::sync::atomic::Ordering::Relaxed) {
            PROCESS_LIVE.fetch_sub(l.size() as isize, std::sync::atomic::Ordering::Relaxed);
        }
    }
    unsafe fn realloc(&self, p: *mut u8, l: Layout, new: usize) -> *mut u8 {
        let q = System.realloc(p, l, new);
        if !q.is_null() {
            let _ = LIVE.try_with(|c| c.set(c.get() + new as isize - l.size() as isize));
            if TRACK_PROCESS.load(std::sync::atomic::Ordering::Relaxed) {
                PROCESS_LIVE.fetch_add(new as isize - l.size() as isize, std::sync::atomic::Ordering::Relaxed);
            }
        }
        q
    }
}

pub fn live() -> isize {
    LIVE.with(|c| c.get())
}

/// bytes still live after: construct, run the calls, drop everything
pub fn leak_of_history(cfg: &Cfg, seed: u64, calls: &[Call]) -> isize {
    let before = live();
    {
        let mut g = cfg.build().with_seed(seed);
        for c in calls {
            match c {
                Call::Reset => g.reset(),
                Call::SetRange(a, b) => {
                    g.min_opcodes = *a;
                    g.max_opcodes = *b;
                }
                Call::SetFlags(e, b) => {
                    g.allow_ext_opcodes = *e;
                    g.allow_buffer_opcodes = *b;
                }
                Call::Bytes(b) => {
                    let _w = crate::watch::enter(cfg, b, None);
                    let r = catch_unwind(AssertUnwindSafe(|| g.generate_from_arbitrary(b)));
                    drop(r);
                }
                Call::Seeded => {
                    let r = catch_unwind(AssertUnwindSafe(|| g.generate()));
                    drop(r);
                }
            }
        }
        drop(g);
    }
    let _ = crate::run::take_panic();
    live() - before
}

thread_local! {
    static WARM: Cell<bool> = const { Cell::new(false) };
}

fn warm_up() {
    if !WARM.with(|w| w.get()) {
        // first use on this thread: module table, thread-locals of the hooks, ...
        for p in [0u8, 5] {
            let _ = leak_of_history(&Cfg::new(p).range(8, 8), 1, &[Call::Bytes(vec![7; 64]), Call::Seeded]);
        }
        WARM.with(|w| w.set(true));
    }
}

/// touch the per-thread state of the harness itself without generating anything
fn warm_flag_only() {
    WARM.with(|w| w.set(w.get()));
    let _ = live();
}

fn has_cycle(g: &Graph) -> bool {
    // iterative DFS with colours
    let n = g.nodes.len();
    let mut colour = vec![0u8; n];
    for s in 0..n {
        if colour[s] != 0 {
            continue;
        }
        let mut stack: Vec<(usize, usize)> = vec![(s, 0)];
        colour[s] = 1;
        while let Some((v, i)) = stack.pop() {
            if i < g.nodes[v].1.len() {
                stack.push((v, i + 1));
                let w = g.nodes[v].1[i] as usize;
                if colour[w] == 1 {
                    return true;
                }
                if colour[w] == 0 {
                    colour[w] = 1;
                    stack.push((w, 0));
                }
            } else {
                colour[v] = 2;
            }
        }
    }
    false
}

fn monitor(ctx: &RunCtx) -> Vec<Finding> {
    warm_up();
    let mut data = ctx.script.to_vec();
    data.resize(ctx.script.len() + ZERO_TAIL, 0);
    let l1 = leak_of_history(ctx.cfg, 0, &[Call::Bytes(data.clone())]);
    if l1 == 0 {
        // a path that built a reference cycle is also repeated on ONE generator: state carried from one generation
        // to the next (remembered cells, caches keyed by address) must not keep a later cycle alive
        // (only for the transition that closes the cycle: graph acyclic before the last step, cyclic after it)
        let n = ctx.tr.graphs.len();
        let closes_now = n >= 2 && has_cycle(&ctx.tr.graphs[n - 1].1) && !ctx.tr.graphs[..n - 1].iter().any(|(_, g)| has_cycle(g));
        if closes_now || (n >= 3 && has_cycle(&ctx.tr.graphs[n - 2].1) && !ctx.tr.graphs[..n - 2].iter().any(|(_, g)| has_cycle(g))) {
            let other = {
                let mut d = vec![0x5au8; 24];
                d.resize(24 + ZERO_TAIL, 0);
                d
            };
            for h in [
                vec![Call::Bytes(data.clone()), Call::Bytes(data.clone()), Call::Bytes(data.clone())],
                vec![Call::Bytes(data.clone()), Call::Reset, Call::Bytes(other.clone()), Call::Bytes(data.clone())],
            ] {
                let l = leak_of_history(ctx.cfg, 0, &h);
                if l != 0 && leak_of_history(ctx.cfg, 0, &h) != 0 {
                    return vec![Finding {
                        prop: "C14",
                        class: "leak:cycle-on-reused-generator".into(),
                        msg: format!("{l} bytes still allocated after {} generations of a cycle-building path on one generator (a single generation leaks nothing)", h.iter().filter(|c| matches!(c, Call::Bytes(_))).count()),
                    }];
                }
            }
        }
        return vec![];
    }
    // confirm: the same call leaks the same amount again (not a one-off lazy initialisation)
    let l2 = leak_of_history(ctx.cfg, 0, &[Call::Bytes(data)]);
    if l2 == 0 {
        return vec![];
    }
    let cyclic = ctx.tr.graphs.iter().any(|(_, g)| has_cycle(g));
    let _ = cyclic;
    // which in-place opcode closed the first cycle, if any
    let mut closer = "none".to_string();
    if cyclic {
        for (i, (_, g)) in ctx.tr.graphs.iter().enumerate() {
            if has_cycle(g) {
                if i > 0 {
                    if let Some(st) = ctx.tr.steps.get(i - 1) {
                        closer = st.chosen.map(lexer::name).unwrap_or("?").to_string();
                    }
                }
                break;
            }
        }
    }
    vec![Finding {
        prop: "C14",
        class: if cyclic { format!("leak:reference-cycle-closed-by:{closer}") } else { "leak:acyclic-graph".into() },
        msg: format!("{l1} bytes still allocated after the generator was dropped (again {l2}); simulated object graph cyclic: {cyclic}"),
    }]
}

pub fn c14(tier: &str) -> i32 {
    let quick = tier == "quick";
    let mut rep = Report::new("C14", tier);
    let verbose = std::env::var("VERIF_VERBOSE").is_ok();
    let guard = |ctx: &RunCtx| -> Vec<Finding> { monitor(ctx) };
    // fresh threads: a long-running process that generates on short-lived threads must not grow per thread. Run
    // first, while no other thread of this process allocates: spawn, generate (GLOBAL/INST included), drop, join.
    {
        use std::sync::atomic::Ordering;
        let work = |p: u8, seed: u64| {
            let cfg = Cfg::new(p).flags(true, true).range(80, 120);
            let _ = leak_of_history(&cfg, seed, &[Call::Seeded, Call::Bytes(vec![0x11; 40])]);
            let cfg2 = Cfg::new(p).flags(true, true).muts(&FULL, 0.5, true).range(40, 60);
            let _ = leak_of_history(&cfg2, seed, &[Call::Seeded]);
        };
        work(2, 1); // process-level warm-up on this thread
        TRACK_PROCESS.store(true, Ordering::SeqCst);
        let n_threads = if quick { 10 } else { 40 };
        // control: threads that do everything the harness does per thread (watchdog slot, thread-locals) but no generation
        let mut run_threads = |generate: bool| -> Vec<isize> {
            let mut levels = vec![];
            for i in 0..n_threads {
                let p = (i % 6) as u8;
                let h = std::thread::spawn(move || {
                    let _w = crate::watch::enter_light();
                    warm_flag_only();
                    if generate {
                        work(p, 100 + i as u64);
                    }
                });
                let _ = h.join();
                levels.push(PROCESS_LIVE.load(Ordering::Relaxed));
            }
            levels
        };
        let control = run_threads(false);
        let levels = run_threads(true);
        TRACK_PROCESS.store(false, Ordering::SeqCst);
        let per_thread = |l: &[isize]| (l[l.len() - 1] - l[3]) as f64 / (l.len() - 4) as f64;
        let (c, g) = (per_thread(&control), per_thread(&levels));
        rep.set("fresh_thread_growth_bytes_per_thread", json!({"control_threads_without_generation": c, "generating_threads": g, "threads": n_threads}));
        rep.transitions += 2 * n_threads as u64;
        let growth = g - c;
        if growth > 512.0 {
            rep.finding_raw(
                "leak:per-fresh-thread",
                &format!("every short-lived generating thread leaves {growth:.0} bytes more on the process heap than a thread that does not generate ({n_threads} threads each)"),
                json!({"kind":"digest","what":"spawn a thread, generate default pickles (GLOBAL/INST present), drop, join; repeat"}),
            );
        }
    }
    for p in 0..=5u8 {
        for (label, cfg) in [("none", Cfg::new(p).flags(true, true)), ("full-safe@0.5", Cfg::new(p).flags(true, true).muts(&FULL, 0.5, false)), ("full-unsafe@0.5", Cfg::new(p).flags(true, true).muts(&FULL, 0.5, true))] {
            let has_m = !cfg.mutators.is_empty();
            let lp = match (quick, has_m, p) {
                (true, false, 0) => 5,
                (true, false, 1..=3) => 4,
                (true, false, _) => 3,
                (true, true, _) => 2,
                (false, false, 0) => 7,
                (false, false, 1..=3) => 5,
                (false, false, _) => 4,
                (false, true, _) => 3,
            };
            let opts = Opts { max_depth: 64, max_memo: 64, dev_budget: 0, frame: FrameSel::Both, ref_in_key: false, shape_key: true, max_path: lp, ..Opts::default() };
            let t0 = std::time::Instant::now();
            let ex = Explorer { base_cfg: cfg, opts, monitor: &guard, xval_full: Default::default(), choice_discovery: Default::default() };
            let out = ex.explore(None);
            let l = format!("P{p}/{label}/shape/Lp{lp}");
            if verbose {
                eprintln!("plan {l:<40} states={:>8} transitions={:>10} found={} {:.2}s", out.stats.states, out.stats.transitions, out.found.len(), t0.elapsed().as_secs_f64());
            }
            rep.add_stats(&l, &out.stats);
            for fd in &out.found {
                rep.finding(fd);
            }
            if let Some((s, k)) = out.sample_scripts.last() {
                if rep.samples.len() < 3 {
                    rep.sample(json!({"config": format!("P{p} {label}"), "script_hex": lexer::hex(s), "body_opcodes": k, "oracle": "live bytes after drop == live bytes before new"}));
                }
            }
        }
    }
    // alias-relation closure: kind classes + which roots are the same cell / reach each other. Runs to fixpoint inside
    // a depth box, so cycles that need long detours through the memo (e.g. EMPTY_SET DUP TUPLE1 MEMOIZE POP MARK
    // BINGET ADDITEMS, 8 opcodes) are reached although no state on the way is deeper than 3 slots.
    for p in (0..=5u8).rev() {
        let (d, m) = match (quick, p) {
            (true, 5) | (true, 3) => (3, 1),
            (true, _) => (2, 1),
            (false, 0) => (4, 2),
            (false, _) => (3, 2),
        };
        let cfg = Cfg::new(p).flags(true, true);
        let opts = Opts { max_depth: d, max_memo: m, dev_budget: 0, frame: FrameSel::Off, ref_in_key: false, alias_key: true, ..Opts::default() };
        let t0 = std::time::Instant::now();
        let ex = Explorer { base_cfg: cfg, opts, monitor: &guard, xval_full: Default::default(), choice_discovery: Default::default() };
        let out = ex.explore(None);
        let l = format!("P{p}/none/alias-relation/D{d}M{m}");
        if verbose {
            eprintln!("plan {l:<40} states={:>8} transitions={:>10} found={} {:.2}s", out.stats.states, out.stats.transitions, out.found.len(), t0.elapsed().as_secs_f64());
        }
        rep.add_stats(&l, &out.stats);
        for fd in &out.found {
            rep.finding(fd);
        }
    }
    // histories: generate / reset / drop sequences and seeded default-size pickles
    let mut jobs: Vec<(Cfg, u64, Vec<Call>)> = vec![];
    let inputs: Vec<Vec<u8>> = vec![vec![], vec![0xff; 64], (1..=120u8).collect(), vec![0x5a; 300]];
    for p in 0..=5u8 {
        for cfg in [Cfg::new(p), Cfg::new(p).flags(true, true).muts(&FULL, 0.5, true), Cfg::new(p).range(200, 400)] {
            let ns = if quick { 40u64 } else { 2000 };
            for s in crate::report::sweep_base(ns)..crate::report::sweep_base(ns) + ns {
                jobs.push((cfg.clone(), s, vec![Call::Seeded]));
                if s - crate::report::sweep_base(ns) < 8 {
                    jobs.push((cfg.clone(), s, vec![Call::Seeded, Call::Reset, Call::Seeded, Call::Bytes(inputs[(s % 4) as usize].clone())]));
                    jobs.push((cfg.clone(), s, vec![Call::Bytes(inputs[(s % 4) as usize].clone()), Call::Bytes(inputs[((s + 1) % 4) as usize].clone()), Call::Reset]));
                }
            }
        }
    }
    let bad: Vec<(String, String, serde_json::Value)> = jobs
        .par_iter()
        .filter_map(|(cfg, seed, h)| {
            warm_up();
            let l1 = leak_of_history(cfg, *seed, h);
            if l1 == 0 {
                return None;
            }
            let l2 = leak_of_history(cfg, *seed, h);
            if l2 == 0 {
                return None;
            }
            Some((
                "leak:history".to_string(),
                format!("{}: {l1} bytes live after {:?} and drop", cfg.describe(), h.iter().map(|c| c.describe()).collect::<Vec<_>>()),
                json!({"kind":"leak-history","config":cfg.to_json(),"seed":seed,"calls":h.iter().map(|c| c.to_json()).collect::<Vec<_>>()}),
            ))
        })
        .collect();
    rep.transitions += jobs.len() as u64;
    rep.set("histories", json!(jobs.len()));
    for (c, m, r) in bad {
        rep.finding_raw(&c, &m, r);
    }
    rep.assumptions = vec![
        "live heap is measured per thread by a counting global allocator in the harness process; the generator is !Send, so its allocations and frees happen on the measuring thread".into(),
        "aliasing-exact state key (object graph); paths are bounded by length Lp".into(),
    ];
    rep.finish(true, "alias-sensitive closure of all opcode sequences up to Lp; every path re-run untraced between two readings of the live-bytes counter")
}

pub fn replay_history(v: &serde_json::Value) -> i32 {
    let cfg = Cfg::from_json(&v["config"]);
    let seed = v["seed"].as_u64().unwrap_or(0);
    let h: Vec<Call> = v["calls"].as_array().map(|a| a.iter().map(Call::from_json).collect()).unwrap_or_default();
    warm_up();
    let l = leak_of_history(&cfg, seed, &h);
    println!("{}: live bytes after drop: {l}", cfg.describe());
    (l != 0) as i32
}

pub fn replay_bytes(cfg: &Cfg, script: &[u8]) -> i32 {
    warm_up();
    let l = leak_of_history(cfg, 0, &[Call::Bytes(script.to_vec())]);
    println!("live bytes after generate_from_arbitrary + drop: {l}");
    (l != 0) as i32
}
