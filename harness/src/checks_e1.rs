//! Checks decided by the E1 explorer: C01 C02 C03 C04 C05 C06 C10 C17.

use crate::explore::{analyse, Explorer, Finding, FrameSel, Opts, RunCtx};
use crate::lexer;
use crate::monitors;
use crate::report::Report;
use crate::run::{run_bytes, run_seed, Cfg, Mk};
use crate::trace;
use crate::xval;
use serde_json::json;

fn static_prop(p: &str) -> &'static str {
    match p {
        "C01" => "C01",
        "C02" => "C02",
        "C03" => "C03",
        "C04" => "C04",
        "C05" => "C05",
        "C06" => "C06",
        "C09" => "C09",
        "C10" => "C10",
        "C11" => "C11",
        "C12" => "C12",
        "C15" => "C15",
        "C17" => "C17",
        _ => "C??",
    }
}

pub fn monitor_for(prop: &str) -> Box<dyn Fn(&RunCtx) -> Vec<Finding> + Sync> {
    match prop {
        "C01" => Box::new(monitors::c01),
        "C02" => Box::new(monitors::c02),
        "C03" => Box::new(monitors::c03),
        "C04" => Box::new(monitors::c04),
        "C05" => Box::new(monitors::c05),
        "C06" => Box::new(monitors::c06),
        "C09" => Box::new(monitors::c09),
        "C10" => Box::new(monitors::c10),
        "C11" => Box::new(monitors::c11),
        "C15" => Box::new(monitors::c15),
        "C17" => Box::new(monitors::c17),
        _ => Box::new(|_| vec![]),
    }
}

pub const FULL: [Mk; 7] = Mk::ALL;

fn rev_full() -> Vec<Mk> {
    let mut v = FULL.to_vec();
    v.reverse();
    v
}

struct Plan {
    label: String,
    cfg: Cfg,
    opts: Opts,
    /// scenario prefix (opcode codes) or empty
    scenario: Vec<Vec<u8>>,
}

fn safe_configs(p: u8) -> Vec<(String, Cfg)> {
    vec![
        (format!("P{p}/none"), Cfg::new(p).flags(true, true)),
        (format!("P{p}/full-safe@0.5"), Cfg::new(p).flags(true, true).muts(&FULL, 0.5, false)),
    ]
}

fn all_configs(p: u8) -> Vec<(String, Cfg)> {
    let mut v = safe_configs(p);
    v.push((format!("P{p}/full-unsafe@0.5"), Cfg::new(p).flags(true, true).muts(&FULL, 0.5, true)));
    v
}

fn plans(prop: &str, tier: &str) -> Vec<Plan> {
    let quick = tier == "quick";
    let mut v = vec![];
    let safe_only = matches!(prop, "C01" | "C02" | "C03" | "C05" | "C17");
    let xcap = if quick { 12_000 } else { 300_000 };
    let mk = |label: &str, cfg: &Cfg, d: usize, m: usize, b: usize| -> Plan {
        // the largest default-answer box of a configuration also runs the operand-consuming opcodes one slot deeper
        let o = Opts { max_depth: d, max_memo: m, dev_budget: b, ref_in_key: safe_only, xval_cap: xcap, fringe_consumers: b == 0 && m == 1 && (d == 3 || (quick && d >= 3)), ..Opts::default() };
        Plan { label: format!("{label}/D{d}M{m}b{b}"), cfg: cfg.clone(), opts: o, scenario: vec![] }
    };
    if prop != "C10" {
        // descending: a process-wide cache filled by a richer protocol must not leak into a poorer one
        for p in (0..=5u8).rev() {
            let cfgs = if safe_only { safe_configs(p) } else { all_configs(p) };
            for (label, cfg) in cfgs {
                let has_m = !cfg.mutators.is_empty();
                // (depth, memo, deviation budget) boxes; every box is closed to fixpoint. The boxes are tailored to what the
                // property's oracle can depend on: stack shape (C01/C03/C17), memo contents (C02), emitted encodings
                // (C04/C05/C06, which depend on the opcode, the protocol and the drawn values, not on the stack below).
                let p0 = p == 0;
                let boxes: Vec<(usize, usize, usize)> = match (prop, quick, has_m) {
                    // can_emit() and the simulation do not look at the protocol, only the opcode table differs: the richest
                    // table of each family (5 ⊇ 4, 3 ⊇ 2, 1 ⊇ 0 for everything but the text encodings) gets the deep box,
                    // its poorer sibling a shallow one; protocol-specific code (integer tables, collapse phase below
                    // protocol 2, header) is shallow by nature
                    ("C01" | "C03" | "C17", true, false) => match p {
                        5 => vec![(3, 1, 0), (2, 2, 0), (2, 1, 1)],
                        4 => vec![(2, 1, 1)],
                        3 => vec![(3, 1, 0), (2, 1, 1)],
                        2 => vec![(2, 1, 1)],
                        1 => vec![(3, 1, 0), (2, 2, 0), (2, 1, 1)],
                        _ => vec![(4, 1, 0), (2, 2, 0), (2, 1, 1)],
                    },
                    ("C01" | "C03" | "C17", true, true) => {
                        let mut b = if p == 4 || p == 2 { vec![(1, 1, 1)] } else { vec![(2, 2, 0), (1, 2, 1)] };
                        if p0 {
                            // mutator x emission interplay on drawn values (non-empty string AND a special replacement
                            // character): two value deviations per step; protocol 0 carries the text encodings
                            b.push((1, 1, 2));
                        }
                        b
                    }
                    ("C01" | "C03" | "C17", false, false) => match p {
                        0 => vec![(5, 2, 0), (3, 3, 0), (3, 1, 1), (2, 1, 2)],
                        1 | 3 => vec![(4, 1, 0), (3, 2, 0), (2, 3, 0), (3, 1, 1), (2, 1, 2)],
                        2 => vec![(3, 2, 0), (2, 1, 2)],
                        5 => vec![(4, 1, 0), (3, 2, 0), (2, 3, 0), (2, 1, 1), (1, 1, 2)],
                        _ => vec![(3, 1, 0), (2, 2, 0), (2, 1, 1)],
                    },
                    ("C01" | "C03" | "C17", false, true) => {
                        if p == 4 || p == 2 {
                            vec![(2, 1, 0), (1, 1, 2)]
                        } else {
                            vec![(2, 2, 0), (2, 1, 1), (1, 1, 2)]
                        }
                    }
                    ("C02", true, false) => vec![(2, 2, 0), (1, 3, 0), (2, 1, 1)],
                    ("C02", true, true) => vec![(2, 2, 0), (1, 2, 1)],
                    ("C02", false, false) => match p {
                        0 => vec![(3, 3, 0), (2, 4, 0), (2, 2, 1), (1, 2, 2)],
                        4 | 2 => vec![(2, 2, 0), (1, 2, 1)],
                        _ => vec![(2, 3, 0), (1, 4, 0), (2, 2, 1), (1, 2, 2)],
                    },
                    ("C02", false, true) => {
                        if p == 4 || p == 2 {
                            vec![(1, 2, 1)]
                        } else {
                            vec![(2, 2, 0), (1, 3, 0), (1, 2, 1), (1, 1, 2)]
                        }
                    }
                    ("C05", true, false) => vec![(2, 1, 0), (1, 1, if p0 { 2 } else { 1 })],
                    ("C05", true, true) => vec![(1, 1, if p0 { 2 } else { 1 })],
                    ("C05", false, _) => vec![(3, 1, 0), (2, 1, 1), (1, 1, 2)],
                    ("C04", true, false) => vec![(2, 1, 0), (1, 1, 2)],
                    ("C04", true, true) => vec![(2, 1, 0), (1, 1, 1)],
                    ("C04", false, false) => vec![(3, 2, 0), (2, 1, 2), (1, 1, 3)],
                    ("C04", false, true) => vec![(3, 1, 0), (2, 1, 1), (1, 1, 2)],
                    ("C06", true, false) => vec![(2, 1, 0), (1, 1, 1)],
                    ("C06", true, true) => vec![(1, 1, 1)],
                    ("C06", false, false) => vec![(3, 2, 0), (2, 1, 1), (1, 1, 2)],
                    ("C06", false, true) => vec![(2, 1, 1), (1, 1, 2)],
                    (_, true, _) => vec![(2, 1, 0), (1, 1, 1)],
                    (_, false, _) => vec![(3, 1, 0), (2, 1, 1)],
                };
                for (d, m, b) in boxes {
                    v.push(mk(&label, &cfg, d, m, b));
                }
            }
        }
    } else {
        for p in 0..=5u8 {
            for (ext, buf) in [(true, true), (false, false), (true, false), (false, true)] {
                for (ml, muts, uns) in [("none", vec![], false), ("full-unsafe@0.5", FULL.to_vec(), true), ("rev-unsafe@0.5", rev_full(), true)] {
                    let cfg = Cfg::new(p).flags(ext, buf).muts(&muts, 0.5, uns);
                    // without mutators the flags only gate can_emit: default answers suffice; with the unsafe lists every
                    // gate and one value deviation per step are explored at a smaller depth
                    let (d, b) = match (quick, muts.is_empty()) {
                        (true, true) => (3, 0),
                        (true, false) => (1, 1),
                        (false, true) => (4, 0),
                        (false, false) => (2, 1),
                    };
                    let mut pl = mk(&format!("P{p}/ext={ext}/buf={buf}/{ml}"), &cfg, d, 1, b);
                    pl.opts.fringe_consumers = false;
                    pl.opts.ref_in_key = false;
                    v.push(pl);
                }
            }
        }
    }
    if prop == "C17" {
        // the simulation's in-place updates and tear-down act on shared cells: explore with the alias-relation key
        for p in (0..=5u8).rev() {
            let (d, m) = match (quick, p) {
                (true, 5) | (true, 2) => (3, 1),
                (true, _) => (2, 1),
                (false, 0) => (4, 2),
                (false, _) => (3, 2),
            };
            let o = Opts { max_depth: d, max_memo: m, dev_budget: 0, ref_in_key: false, alias_key: true, frame: FrameSel::Off, ..Opts::default() };
            v.push(Plan { label: format!("P{p}/none/alias-relation/D{d}M{m}"), cfg: Cfg::new(p).flags(true, true), opts: o, scenario: vec![] });
        }
    }
    if matches!(prop, "C01" | "C02" | "C17") {
        // start states other than the initial one: large memo (BINPUT wrap-around, BINGET filter), deep stack, many MARKs
        let mut memo_cfgs: Vec<(&str, Vec<Mk>, f64)> = vec![("none", vec![], 0.1)];
        if prop == "C02" || !quick {
            memo_cfgs.push(("offbyone@1.0", vec![Mk::Offbyone], 1.0));
            memo_cfgs.push(("memoindex-safe@1.0", vec![Mk::Memoindex], 1.0));
            memo_cfgs.push(("offbyone+memoindex@0.5", vec![Mk::Offbyone, Mk::Memoindex], 0.5));
        }
        for p in 0..=5u8 {
            // preference order per step: the short form first, then the long forms
            let put: Vec<u8> = match p {
                0 => vec![b'p'],
                1..=3 => vec![b'q', b'r', b'p'],
                _ => vec![0x94],
            };
            for n in [255usize, 256, 257] {
                if quick && !((p == 1 || p == 4) || n == 256) {
                    continue;
                }
                let mut plan = vec![vec![b'N']];
                plan.extend(std::iter::repeat(put.clone()).take(n));
                for (ml, muts, rate) in &memo_cfgs {
                    if !muts.is_empty() && n != 256 {
                        continue;
                    }
                    let cfg = Cfg::new(p).flags(true, true).muts(muts, *rate, false);
                    let o = Opts {
                        max_depth: 1 + if quick { 1 } else { 2 },
                        max_memo: n + if quick { 1 } else { 2 },
                        dev_budget: 1,
                        ref_in_key: true,
                        frame: FrameSel::Off,
                        max_path: if quick || !muts.is_empty() { 2 } else { 3 },
                        ..Opts::default()
                    };
                    v.push(Plan { label: format!("P{p}/{ml}/scenario-memo{n}"), cfg, opts: o, scenario: plan.clone() });
                }
            }
            // 40 MARKs / 300 scalars, then everything up to 2 (3) more opcodes
            let lp = if quick { 2 } else { 3 };
            let o = Opts { max_depth: 43, max_memo: 1, dev_budget: 0, frame: FrameSel::Off, max_path: lp, ..Opts::default() };
            v.push(Plan { label: format!("P{p}/none/scenario-marks40"), cfg: Cfg::new(p).flags(true, true), opts: o, scenario: vec![vec![b'(']; 40] });
            let o = Opts { max_depth: 303, max_memo: 1, dev_budget: 0, frame: FrameSel::Off, max_path: lp, ..Opts::default() };
            v.push(Plan { label: format!("P{p}/none/scenario-stack300"), cfg: Cfg::new(p).flags(true, true), opts: o, scenario: vec![vec![b'N']; 300] });
        }
    }
    v
}

pub fn check(prop: &str, tier: &str) -> i32 {
    let sprop = static_prop(prop);
    let mut rep = Report::new(sprop, tier);
    rep.model_bound = true;
    let mon = monitor_for(prop);
    let guard = |ctx: &RunCtx| -> Vec<Finding> { mon(ctx) };
    let mut all_outputs: Vec<Vec<u8>> = vec![];
    let mut n_plans = 0;
    let only = std::env::var("VERIF_ONLY").ok();
    let verbose = std::env::var("VERIF_VERBOSE").is_ok();
    for pl in plans(prop, tier) {
        if let Some(o) = &only {
            if !pl.label.contains(o.as_str()) {
                continue;
            }
        }
        let t_plan = std::time::Instant::now();
        let mut pl = pl;
        if let Some(d) = std::env::var("VERIF_D").ok().and_then(|x| x.parse().ok()) {
            pl.opts.max_depth = d;
        }
        if let Some(d) = std::env::var("VERIF_M").ok().and_then(|x| x.parse().ok()) {
            pl.opts.max_memo = d;
        }
        let ex = Explorer { base_cfg: pl.cfg.clone(), opts: pl.opts.clone(), monitor: &guard, xval_full: Default::default(), choice_discovery: Default::default() };
        let start = if pl.scenario.is_empty() {
            None
        } else {
            match crate::explore::scenario(&ex, false, &pl.scenario) {
                Ok(r) => Some(vec![r]),
                Err(e) => {
                    // e.g. MEMOIZE does not exist below protocol 4: a planning error is a machinery error
                    rep.machinery.push(format!("{}: {e}", pl.label));
                    continue;
                }
            }
        };
        let out = ex.explore(start);
        n_plans += 1;
        if verbose {
            eprintln!(
                "plan {:<40} states={:>8} transitions={:>10} pruned={:>8} levels={:>3} dev_runs={:>9} found={} {:.2}s",
                pl.label, out.stats.states, out.stats.transitions, out.stats.pruned, out.stats.levels, out.stats.deviation_runs, out.found.len(), t_plan.elapsed().as_secs_f64()
            );
        }
        rep.add_stats(&pl.label, &out.stats);
        for fd in &out.found {
            rep.finding(fd);
        }
        for (s, k) in out.sample_scripts.iter().take(1) {
            let (c, r, _t) = ex.run(s, *k);
            if let Some(b) = r.bytes() {
                rep.sample(json!({"config": c.describe(), "script_hex": lexer::hex(s), "output_hex": lexer::hex(b),
                    "opcodes": lexer::genops(b).map(|(o,_)| o.iter().map(|x| lexer::name(x.code)).collect::<Vec<_>>()).unwrap_or_default()}));
            }
        }
        all_outputs.extend(out.xval_outputs);
    }
    // very large memos (beyond the 1-byte and 2-byte index widths): NONE, then N x PUT / LONG_BINPUT / MEMOIZE built by
    // repeating the steady-state script unit learned at 257..259 entries, then every possible last choice byte.
    // Untraced (a trace of 65 537 steps would hold 65 537 memo snapshots); judged from the bytes alone.
    if matches!(prop, "C01" | "C02" | "C04" | "C05") {
        use rayon::prelude::*;
        let noop = |_: &RunCtx| -> Vec<Finding> { vec![] };
        let sizes: Vec<usize> = if tier == "quick" { vec![1000, 65_537] } else { vec![300, 1000, 65_535, 65_537, 70_000] };
        let mut runs = 0u64;
        for p in (0..=5u8).rev() {
            if tier == "quick" && !(p == 0 || p == 1 || p == 4) {
                continue;
            }
            let puts: Vec<u8> = match p {
                0 => vec![b'p'],
                1..=3 => vec![b'p', b'r'],
                _ => vec![0x94, b'r'],
            };
            for put in puts {
                let cfg = Cfg::new(p).flags(true, true);
                let ex = Explorer { base_cfg: cfg.clone(), opts: Opts::default(), monitor: &noop, xval_full: Default::default(), choice_discovery: Default::default() };
                let mk = |n: usize| -> Option<Vec<u8>> {
                    let mut plan = vec![vec![b'N']];
                    // the 1-byte form first (as the generator may prefer), then the long form under test
                    plan.extend(std::iter::repeat(if p == 0 { vec![b'p'] } else if p >= 4 { vec![0x94] } else { vec![b'q', b'r'] }).take(256));
                    plan.extend(std::iter::repeat(vec![put]).take(n - 256));
                    crate::explore::scenario(&ex, false, &plan).ok().map(|r| r.script)
                };
                let (Some(a), Some(b), Some(c)) = (mk(258), mk(259), mk(260)) else {
                    rep.machinery.push(format!("big memo: cannot build the 258..260 entry scripts for protocol {p} with {}", lexer::name(put)));
                    continue;
                };
                if !(b.starts_with(&a) && c.starts_with(&b)) || b[a.len()..] != c[b.len()..] || b.len() == a.len() {
                    rep.machinery.push(format!("big memo: no steady script unit for protocol {p} with {}", lexer::name(put)));
                    continue;
                }
                let unit = b[a.len()..].to_vec();
                for &n in &sizes {
                    let mut base = a.clone();
                    for _ in 258..n {
                        base.extend_from_slice(&unit);
                    }
                    let k = n + 2; // NONE + n stores + one free last step
                    let res: Vec<(u8, Vec<Finding>, Option<usize>)> = (0..70u8)
                        .into_par_iter()
                        .map(|last| {
                            let mut s = base.clone();
                            s.push(last);
                            let mut c = cfg.clone();
                            c.min = k;
                            c.max = k;
                            let r = crate::run::run_bytes(&c, &s, false, false);
                            let tr = trace::parse(&[], 0, false);
                            match r.bytes() {
                                Some(bts) => {
                                    let (ops, m) = analyse(bts);
                                    let stores = ops.as_ref().ok().map(|(o, _)| o.iter().filter(|x| matches!(x.code, b'p' | b'q' | b'r' | 0x94)).count());
                                    let ctx = RunCtx { cfg: &c, script: &s, res: &r, tr: &tr, ops: &ops, m: m.as_ref() };
                                    (last, mon(&ctx), stores)
                                }
                                None => (last, vec![], None),
                            }
                        })
                        .collect();
                    for (last, fs, stores) in res {
                        runs += 1;
                        if stores.map(|x| x < n).unwrap_or(false) {
                            rep.machinery.push(format!("big memo: protocol {p} {} n={n}: only {:?} memo stores in the output (script unit not steady)", lexer::name(put), stores));
                        }
                        for fd in fs {
                            rep.finding_raw(
                                &format!("{}:memo-of-{n}", fd.class),
                                &format!("P{p}, {n} memo entries via {}, last choice byte {last}: {}", lexer::name(put), fd.msg),
                                json!({"kind":"big-memo","config":cfg.to_json(),"protocol":p,"store":lexer::name(put),"entries":n,"last_choice_byte":last,"prefix_hex":lexer::hex(&a),"unit_hex":lexer::hex(&unit)}),
                            );
                        }
                    }
                }
            }
        }
        rep.transitions += runs;
        rep.set("big_memo_generations", json!({"sizes": sizes, "generations": runs}));
    }
    // long programs: the end-of-program collapse has to bring ANY final stack down to one object, however many items
    // the body left. Steady strategies (always the same opcode) and the empty fuzzer input, opcode counts around 10 000,
    // 20 000 and above; untraced, each on its own 256 MiB thread, judged from the bytes by the reference machine.
    if matches!(prop, "C01" | "C04" | "C05" | "C06") {
        use rayon::prelude::*;
        let noop = |_: &RunCtx| -> Vec<Finding> { vec![] };
        let ts: Vec<usize> = if tier == "quick" && prop != "C01" { vec![20_005] } else if tier == "quick" { vec![10_003, 20_005, 30_000] } else { vec![9_999, 10_001, 10_002, 10_003, 20_001, 20_002, 20_003, 20_005, 30_000, 40_000] };
        let mut jobs: Vec<(u8, usize, Vec<u8>, Vec<u8>, String)> = vec![];
        for p in (0..=5u8).rev() {
            let ex = Explorer { base_cfg: Cfg::new(p).flags(true, true), opts: Opts::default(), monitor: &noop, xval_full: Default::default(), choice_discovery: Default::default() };
            for &t in &ts {
                jobs.push((p, t, vec![], vec![], "empty fuzzer input".to_string()));
                if p >= 4 {
                    // first draw true: the same program inside a FRAME
                    jobs.push((p, t, vec![0x01], vec![], "framed, otherwise exhausted fuzzer input".to_string()));
                }
            }
            for (first, repo, label) in crate::total::STRATEGIES {
                let Some((first, repo)) = crate::total::strategy_ops(p, first, repo) else { continue };
                match crate::total::steady(&ex, first, repo) {
                    Ok((prefix, unit)) => {
                        for &t in &ts {
                            jobs.push((p, t, prefix.clone(), unit.clone(), label.to_string()));
                            if p >= 4 && !prefix.is_empty() {
                                // the FRAME coin is the first draw (one byte, lowest bit): the same strategy with the other answer
                                let mut q = prefix.clone();
                                q[0] ^= 1;
                                jobs.push((p, t, q, unit.clone(), format!("{label} [FRAME coin flipped]")));
                            }
                        }
                    }
                    Err(e) => rep.set(&format!("skipped_long_program_P{p}_{}", lexer::name(repo)), json!(e)),
                }
            }
        }
        let res: Vec<(usize, Vec<Finding>, bool)> = jobs
            .par_iter()
            .enumerate()
            .map(|(i, (p, t, prefix, unit, _label))| {
                let (p, t) = (*p, *t);
                let mut s = prefix.clone();
                while !unit.is_empty() && s.len() < prefix.len() + unit.len() * (t + 8) {
                    s.extend_from_slice(unit);
                }
                let cfg = Cfg::new(p).flags(true, true).range(t, t);
                let c2 = cfg.clone();
                let s2 = s.clone();
                // a private big stack: nesting depth T structures are built and dropped here
                let r = std::thread::Builder::new().stack_size(256 << 20).spawn(move || crate::run::run_bytes(&c2, &s2, false, false)).ok().and_then(|h| h.join().ok());
                let Some(r) = r else { return (i, vec![], false) };
                let tr = trace::parse(&[], 0, false);
                match r.bytes() {
                    Some(bts) => {
                        let (ops, m) = analyse(bts);
                        let ctx = RunCtx { cfg: &cfg, script: &s, res: &r, tr: &tr, ops: &ops, m: m.as_ref() };
                        (i, mon(&ctx), true)
                    }
                    None => (i, vec![], false),
                }
            })
            .collect();
        let mut runs = 0u64;
        let mut no_output = 0u64;
        for (i, fs, got) in res {
            runs += 1;
            let (p, t, prefix, unit, label) = &jobs[i];
            if !got {
                no_output += 1;
            }
            for fd in fs {
                // class: the oracle's class + the strategy (not T and not the protocol: a longer run of the same shape is the same defect)
                rep.finding_raw(
                    &format!("{}:long-program:{}", fd.class, label.split(' ').next().unwrap_or("?")),
                    &format!("P{p}, {t} opcodes, {label}: {}", fd.msg),
                    json!({"kind":"long-program","config":Cfg::new(*p).flags(true, true).range(*t, *t).to_json(),"prefix_hex":lexer::hex(prefix),"unit_hex":lexer::hex(unit),"opcodes":t,"strategy":label}),
                );
            }
        }
        if no_output > 0 {
            rep.machinery.push(format!("long programs: {no_output} of {runs} generations returned no bytes (panic, Err or thread failure) and could not be judged — that is C09's finding"));
        }
        rep.transitions += runs;
        rep.set("long_program_generations", json!({"opcode_counts": ts, "strategies": crate::total::STRATEGIES.iter().map(|x| x.2).chain(std::iter::once("empty fuzzer input")).collect::<Vec<_>>(), "generations": runs}));
    }
    // deeper stacks than the closure's box: every stack of depth <= 5 (6) over one representative per kind class,
    // consumers run once from each
    if matches!(prop, "C01" | "C03" | "C17") {
        for p in (0..=5u8).rev() {
            let depth = match (tier == "quick", p) {
                (true, _) => 5,
                (false, 4 | 5) => 6,
                (false, _) => 7,
            };
            let t0 = std::time::Instant::now();
            let ex = Explorer { base_cfg: Cfg::new(p).flags(true, true), opts: Opts { ref_in_key: true, ..Opts::default() }, monitor: &guard, xval_full: Default::default(), choice_discovery: Default::default() };
            let out = crate::explore::product_stacks(&ex, depth);
            let l = format!("P{p}/none/product-stacks-depth{depth}");
            if verbose {
                eprintln!("plan {l:<40} states={:>8} transitions={:>10} found={} {:.2}s", out.stats.states, out.stats.transitions, out.found.len(), t0.elapsed().as_secs_f64());
            }
            n_plans += 1;
            rep.add_stats(&l, &out.stats);
            for fd in &out.found {
                rep.finding(fd);
            }
            // run-length shapes: [base] MARK^a N^b MARK^c [GLOBAL] N^d with b, d up to 17 (65): thresholds in counts
            let max_run = if tier == "quick" { 32 } else { 128 };
            {
                let t0 = std::time::Instant::now();
                let out = crate::explore::runlength_shapes(&ex, max_run);
                let l = format!("P{p}/none/runlength-shapes-max{max_run}");
                if verbose {
                    eprintln!("plan {l:<40} states={:>8} transitions={:>10} found={} {:.2}s", out.stats.states, out.stats.transitions, out.found.len(), t0.elapsed().as_secs_f64());
                }
                n_plans += 1;
                rep.add_stats(&l, &out.stats);
                for fd in &out.found {
                    rep.finding(fd);
                }
            }
        }
    }
    // seed sweep (PRNG mode) through the same monitor — a labelled sweep, not exhaustive
    let sweep_n: u64 = if tier == "quick" { 150 } else { 5000 };
    let mut sweep_runs = 0u64;
    {
        use rayon::prelude::*;
        let jobs: Vec<(u8, u64, usize)> = (0..=5u8).rev().flat_map(|p| (crate::report::sweep_base(sweep_n)..crate::report::sweep_base(sweep_n) + sweep_n).flat_map(move |s| (0..3usize).map(move |c| (p, s, c)))).collect();
        let res: Vec<(Cfg, u64, Vec<Finding>, Option<Vec<u8>>)> = jobs
            .par_iter()
            .filter_map(|(p, s, c)| {
                let cfg = match c {
                    0 => Cfg::new(*p).flags(true, true),
                    1 => Cfg::new(*p).flags(true, true).muts(&FULL, 0.5, false),
                    _ => Cfg::new(*p).flags(true, true).muts(&FULL, 0.5, true),
                };
                if cfg.unsafe_mut && matches!(prop, "C01" | "C02" | "C03" | "C05" | "C17") {
                    return None;
                }
                let r = run_seed(&cfg, *s, true);
                let tr = trace::parse(&r.events, 0, !cfg.mutators.is_empty());
                let (ops, m) = match r.bytes() {
                    Some(b) => analyse(b),
                    None => return Some((cfg, *s, vec![], None)),
                };
                let ctx = RunCtx { cfg: &cfg, script: &[], res: &r, tr: &tr, ops: &ops, m: m.as_ref() };
                let fs = mon(&ctx);
                let keep = if *s - crate::report::sweep_base(sweep_n) < 40 { r.bytes().map(|b| b.to_vec()) } else { None };
                Some((cfg, *s, fs, keep))
            })
            .collect();
        for (cfg, s, fs, keep) in res {
            sweep_runs += 1;
            for fd in fs {
                rep.finding_raw(&fd.class, &fd.msg, json!({"kind": "seed", "config": cfg.to_json(), "seed": s}));
            }
            if let Some(b) = keep {
                all_outputs.push(b);
            }
        }
    }
    rep.set("seed_sweep", json!({"seeds_per_protocol_and_config": sweep_n, "first_seed": crate::report::sweep_base(sweep_n), "generations": sweep_runs, "label": "sweep of a finite seed range in PRNG mode, default 60-300 opcodes; not exhaustive over 2^64 seeds"}));
    // long seeded programs (3 000 and 12 000 opcodes): the region where memos pass 256 entries and stacks grow to hundreds of
    // slots "by chance". Untraced, judged from the bytes; a labelled sweep like the one above, not exhaustive.
    if matches!(prop, "C01" | "C02" | "C04" | "C05" | "C06" | "C10") {
        use rayon::prelude::*;
        let n: u64 = if tier == "quick" { 24 } else { 600 };
        let jobs: Vec<(u8, usize, u64, usize)> = (0..=5u8)
            .rev()
            .flat_map(|p| [3_000usize, 12_000].into_iter().flat_map(move |t| (crate::report::sweep_base(n)..crate::report::sweep_base(n) + n).flat_map(move |sd| (0..2usize).map(move |c| (p, t, sd, c)))))
            .collect();
        let res: Vec<(Cfg, u64, Vec<Finding>, bool)> = jobs
            .par_iter()
            .map(|(p, t, sd, c)| {
                let base = if prop == "C10" { Cfg::new(*p) } else { Cfg::new(*p).flags(true, true) };
                let cfg = match c {
                    0 => base.range(*t, *t),
                    _ => base.range(*t, *t).muts(&FULL, 0.5, matches!(prop, "C04" | "C06" | "C10")),
                };
                let r = run_seed(&cfg, *sd, false);
                let tr = trace::parse(&[], 0, false);
                match r.bytes() {
                    Some(b) => {
                        let (ops, m) = analyse(b);
                        let ctx = RunCtx { cfg: &cfg, script: &[], res: &r, tr: &tr, ops: &ops, m: m.as_ref() };
                        let fs = mon(&ctx);
                        (cfg, *sd, fs, true)
                    }
                    None => (cfg, *sd, vec![], false),
                }
            })
            .collect();
        let mut runs = 0u64;
        let mut no_output = 0u64;
        for (cfg, sd, fs, got) in res {
            runs += 1;
            if !got {
                no_output += 1;
            }
            for fd in fs {
                rep.finding_raw(&format!("{}:long-seeded", fd.class), &format!("{} seed {sd}: {}", cfg.describe(), fd.msg), json!({"kind": "seed", "config": cfg.to_json(), "seed": sd}));
            }
        }
        if no_output > 0 {
            rep.machinery.push(format!("long seeded programs: {no_output} of {runs} generations returned no bytes and could not be judged — that is C09's finding"));
        }
        rep.transitions += runs;
        rep.set("long_seeded_sweep", json!({"opcode_counts": [3000, 12000], "seeds_per_protocol_count_and_config": n, "first_seed": crate::report::sweep_base(n), "generations": runs,
            "label": "labelled sweep of a finite seed range in PRNG mode with long programs; not exhaustive"}));
    }
    // the same for the oracles that need the step-by-step trace (simulated stack / memo against the reference machine):
    // 3 000-opcode programs only, fewer seeds
    if matches!(prop, "C03" | "C17") {
        use rayon::prelude::*;
        let n: u64 = if tier == "quick" { 6 } else { 150 };
        let jobs: Vec<(u8, u64, usize)> = (0..=5u8).rev().flat_map(|p| (crate::report::sweep_base(n)..crate::report::sweep_base(n) + n).flat_map(move |sd| (0..2usize).map(move |c| (p, sd, c)))).collect();
        let res: Vec<(Cfg, u64, Vec<Finding>, bool)> = jobs
            .par_iter()
            .map(|(p, sd, c)| {
                let cfg = match c {
                    0 => Cfg::new(*p).flags(true, true).range(3_000, 3_000),
                    _ => Cfg::new(*p).flags(true, true).range(3_000, 3_000).muts(&FULL, 0.5, false),
                };
                let r = run_seed(&cfg, *sd, true);
                let tr = trace::parse(&r.events, 0, !cfg.mutators.is_empty());
                match r.bytes() {
                    Some(b) => {
                        let (ops, m) = analyse(b);
                        let ctx = RunCtx { cfg: &cfg, script: &[], res: &r, tr: &tr, ops: &ops, m: m.as_ref() };
                        (cfg.clone(), *sd, mon(&ctx), true)
                    }
                    None => (cfg, *sd, vec![], false),
                }
            })
            .collect();
        let mut runs = 0u64;
        for (cfg, sd, fs, got) in res {
            runs += 1;
            if !got {
                rep.machinery.push(format!("long traced program {} seed {sd}: no bytes returned", cfg.describe()));
            }
            for fd in fs {
                rep.finding_raw(&format!("{}:long-seeded", fd.class), &format!("{} seed {sd}: {}", cfg.describe(), fd.msg), json!({"kind": "seed", "config": cfg.to_json(), "seed": sd}));
            }
        }
        rep.transitions += runs;
        rep.set("long_seeded_sweep_traced", json!({"opcode_count": 3000, "seeds_per_protocol_and_config": n, "first_seed": crate::report::sweep_base(n), "generations": runs,
            "label": "labelled sweep of a finite seed range in PRNG mode with 3 000-opcode programs, traced; not exhaustive"}));
    }
    // a generator reused after a LARGE pickle (> 64 KiB of output, thousands of memo entries): the later, small pickles go
    // through this property's oracle (buffers and tables that are recycled by size class)
    if matches!(prop, "C01" | "C02" | "C04" | "C05" | "C06" | "C10") {
        use crate::hist::Call;
        use rayon::prelude::*;
        let big = 12_000usize;
        let mut hs: Vec<(Cfg, u64, Vec<Call>)> = vec![];
        for p in (0..=5u8).rev() {
            let coin: Vec<u8> = if p >= 4 { vec![1] } else { vec![] };
            let small = Call::Bytes([coin.clone(), vec![0x07, 0x21, 0x03, 0x09, 0x11, 0x02]].concat());
            let small0 = Call::Bytes(vec![0x00, 0x07, 0x21, 0x03, 0x09]);
            let base = if prop == "C10" { Cfg::new(p) } else { Cfg::new(p).flags(true, true) };
            for sd in [1u64, 2] {
                hs.push((base.clone(), sd, vec![Call::SetRange(big, big), Call::Seeded, Call::SetRange(4, 9), small.clone(), small0.clone(), Call::Seeded]));
                hs.push((base.clone(), sd, vec![Call::SetRange(big, big), Call::Bytes([coin.clone(), vec![0xa7; 600]].concat()), Call::SetRange(4, 9), Call::Reset, small.clone(), Call::Reset, small0.clone()]));
            }
        }
        let res: Vec<Vec<(String, String, serde_json::Value)>> = hs
            .par_iter()
            .map(|(cfg, sd, h)| {
                let mut bad = vec![];
                for (i, r) in crate::hist::run_history(cfg, *sd, h).into_iter().skip(1) {
                    let c = crate::hist::cfg_at(cfg, h, i);
                    let res = crate::run::RunResult { out: r, panic: None, events: vec![] };
                    let Some(b) = res.bytes() else { continue };
                    let (ops, m) = analyse(b);
                    let tr = trace::parse(&[], 0, false);
                    let ctx = RunCtx { cfg: &c, script: &[], res: &res, tr: &tr, ops: &ops, m: m.as_ref() };
                    for fd in mon(&ctx) {
                        bad.push((
                            format!("{}:reused-after-large-output", fd.class),
                            format!("{}: call #{i} ({}) on a generator that produced a {big}-opcode pickle before: {}", c.describe(), h[i].describe(), fd.msg),
                            json!({"kind": "history", "config": cfg.to_json(), "seed": sd, "calls": h.iter().map(|c| c.to_json()).collect::<Vec<_>>(), "failing_call": i}),
                        ));
                    }
                }
                bad
            })
            .collect();
        let mut calls = 0u64;
        for (x, (_, _, h)) in res.into_iter().zip(hs.iter()) {
            calls += h.iter().filter(|c| matches!(c, Call::Seeded | Call::Bytes(_))).count() as u64;
            for (c, m, r) in x {
                rep.finding_raw(&c, &m, r);
            }
        }
        rep.transitions += calls;
        rep.set("reuse_after_large_output", json!({"histories": hs.len(), "generating_calls": calls, "large_call_opcodes": big}));
    }
    // every entry of the embedded module table, once through GLOBAL and once through INST (text arguments)
    if matches!(prop, "C04" | "C05") {
        use rayon::prelude::*;
        let n = crate::script::MODULE_COUNT.get().copied().unwrap_or(0);
        let noop = |_: &RunCtx| -> Vec<Finding> { vec![] };
        let mut done = 0u64;
        for p in [0u8, 2] {
            let cfg = Cfg::new(p);
            let ex = Explorer { base_cfg: cfg.clone(), opts: Opts::default(), monitor: &noop, xval_full: Default::default(), choice_discovery: Default::default() };
            let g = crate::explore::scenario(&ex, false, &[vec![b'c']]);
            let i = crate::explore::scenario(&ex, false, &[vec![b'('], vec![b'N'], vec![b'i']]);
            for (what, base, k) in [("GLOBAL", g, 1usize), ("INST", i, 3usize)] {
                let Ok(base) = base else {
                    rep.machinery.push(format!("module table run: cannot steer to {what} in protocol {p}"));
                    continue;
                };
                // the module index is the value draw of the last step: find its offset once
                let (_c, _r, tr) = ex.run(&base.script, k);
                let Some(d) = tr.steps.last().and_then(|st| st.draws.iter().find(|d| !d.is_choice && d.method == "choose_index" && d.a == n).cloned()) else {
                    rep.machinery.push(format!("module table run: no choose_index({n}) draw in the {what} step"));
                    continue;
                };
                let bad: Vec<(u64, Finding)> = (0..n)
                    .into_par_iter()
                    .flat_map_iter(|idx| {
                        let mut s = base.script[..d.off.min(base.script.len())].to_vec();
                        s.resize(d.off, 0);
                        s.extend_from_slice(&crate::script::enc_index(idx, n));
                        let mut c = cfg.clone();
                        c.min = k;
                        c.max = k;
                        let r = crate::run::run_bytes(&c, &s, true, false);
                        let trx = trace::parse(&r.events, s.len(), false);
                        let fs = match r.bytes() {
                            Some(b) => {
                                let (ops, m) = analyse(b);
                                let ctx = RunCtx { cfg: &c, script: &s, res: &r, tr: &trx, ops: &ops, m: m.as_ref() };
                                mon(&ctx)
                            }
                            None => vec![],
                        };
                        fs.into_iter().map(move |f| (idx, f)).collect::<Vec<_>>()
                    })
                    .collect();
                done += n;
                for (idx, fd) in bad.into_iter().take(5) {
                    let mut s = base.script[..d.off.min(base.script.len())].to_vec();
                    s.resize(d.off, 0);
                    s.extend_from_slice(&crate::script::enc_index(idx, n));
                    let mut c = cfg.clone();
                    c.min = k;
                    c.max = k;
                    rep.finding_raw(&format!("{}:module-entry", fd.class), &format!("{what} with module table entry #{idx}: {}", fd.msg), json!({"kind":"bytes","config":c.to_json(),"script_hex":lexer::hex(&s)}));
                }
            }
        }
        rep.transitions += done;
        rep.set("module_table_entries_through_GLOBAL_and_INST", json!({"entries": n, "generations": done}));
    }
    // text payloads: every string of length <= 4 over {\\ u U ' " a 0 x} through every string-carrying opcode of every
    // protocol (escaping rules of STRING / UNICODE depend on combinations of adjacent characters)
    if matches!(prop, "C01" | "C04" | "C05") {
        use rayon::prelude::*;
        let alpha: Vec<u8> = [b'\\', b'u', b'U', b'\'', b'"', b'a', b'0', b'x']
            .iter()
            .map(|c| crate::script::ASCII_CHARS.iter().position(|x| x == c).unwrap_or(0) as u8)
            .collect();
        let maxlen = if tier == "quick" { 4 } else { 5 };
        let mut payloads: Vec<Vec<u8>> = vec![vec![]];
        let mut lvl: Vec<Vec<u8>> = vec![vec![]];
        for _ in 0..maxlen {
            let mut next = vec![];
            for s in &lvl {
                for a in &alpha {
                    let mut t = s.clone();
                    t.push(*a);
                    next.push(t);
                }
            }
            payloads.extend(next.iter().cloned());
            lvl = next;
        }
        let noop = |_: &RunCtx| -> Vec<Finding> { vec![] };
        let mut runs = 0u64;
        for p in (0..=5u8).rev() {
            let ops: Vec<u8> = match p {
                0 => vec![b'S', b'V'],
                1..=3 => vec![b'S', b'V', b'X'],
                _ => vec![b'S', b'V', b'X', 0x8c, 0x8d],
            };
            let cfg = Cfg::new(p);
            let ex = Explorer { base_cfg: cfg.clone(), opts: Opts::default(), monitor: &noop, xval_full: Default::default(), choice_discovery: Default::default() };
            for op in ops {
                let Ok(base) = crate::explore::scenario(&ex, false, &[vec![op]]) else {
                    rep.machinery.push(format!("text payloads: cannot steer to {} in protocol {p}", lexer::name(op)));
                    continue;
                };
                // the value draws follow the choice bytes: [length byte][one index byte per character]
                let (_c, _r, tr) = ex.run(&base.script, 1);
                let choice_end = tr.steps.last().map(|st| st.draws.iter().filter(|d| d.is_choice).map(|d| d.off + d.width).max().unwrap_or(0)).unwrap_or(0);
                let bad: Vec<(Vec<u8>, Finding)> = payloads
                    .par_iter()
                    .flat_map_iter(|pl| {
                        let mut s = base.script[..choice_end.min(base.script.len())].to_vec();
                        s.resize(choice_end, 0);
                        s.push(pl.len() as u8);
                        s.extend_from_slice(pl);
                        let mut c = cfg.clone();
                        c.min = 1;
                        c.max = 1;
                        let r = crate::run::run_bytes(&c, &s, true, false);
                        let trx = trace::parse(&r.events, s.len(), false);
                        let fs = match r.bytes() {
                            Some(b) => {
                                let (ops, m) = analyse(b);
                                let ctx = RunCtx { cfg: &c, script: &s, res: &r, tr: &trx, ops: &ops, m: m.as_ref() };
                                mon(&ctx)
                            }
                            None => vec![],
                        };
                        fs.into_iter().map(move |f| (s.clone(), f)).collect::<Vec<_>>()
                    })
                    .collect();
                runs += payloads.len() as u64;
                let mut c = cfg.clone();
                c.min = 1;
                c.max = 1;
                for (s, fd) in bad.into_iter().take(4) {
                    rep.finding_raw(&format!("{}:text-payload", fd.class), &format!("P{p} {}: {}", lexer::name(op), fd.msg), json!({"kind":"bytes","config":c.to_json(),"script_hex":lexer::hex(&s)}));
                }
            }
        }
        rep.transitions += runs;
        rep.set("text_payload_generations", json!({"alphabet": "\\ u U ' \" a 0 x", "max_length": maxlen, "generations": runs}));
    }
    // the flags changed between two calls on one generator (public fields): the later call obeys the flags in force then
    if prop == "C10" {
        crate::hist::c10_flag_histories(&mut rep, tier == "quick");
    }
    // the opt-in flags through the command-line front end (single-file and batch mode): each flag on its own
    if prop == "C10" {
        use rayon::prelude::*;
        let cli = std::env::var("VERIF_CLI").unwrap_or_else(|_| format!("{}/target/cli/release/pickle-fuzzer", crate::report::verif_dir()));
        if std::path::Path::new(&cli).exists() {
            let mut jobs: Vec<(u8, bool, bool, bool, u64)> = vec![];
            for p in [2u8, 4, 5] {
                for (e, b) in [(false, false), (true, false), (false, true), (true, true)] {
                    for batch in [false, true] {
                        for seed in [1u64, 2, 3] {
                            jobs.push((p, e, b, batch, seed));
                        }
                    }
                }
            }
            let base = format!("{}/target/c10-cli-{}", crate::report::verif_dir(), std::process::id());
            let res: Vec<(String, Vec<Finding>)> = jobs
                .par_iter()
                .enumerate()
                .map(|(i, (p, e, b, batch, seed))| {
                    let mut args: Vec<String> = vec!["--protocol".into(), p.to_string(), "--seed".into(), seed.to_string(), "--min-opcodes".into(), "250".into(), "--max-opcodes".into(), "300".into()];
                    if *e {
                        args.push("--allow-ext".into());
                    }
                    if *b {
                        args.push("--allow-buffer".into());
                    }
                    let dir = format!("{base}-{i}");
                    let _ = std::fs::remove_dir_all(&dir);
                    let _ = std::fs::create_dir_all(&dir);
                    let mut cmd = std::process::Command::new(&cli);
                    if *batch {
                        cmd.arg("--dir").arg(format!("{dir}/out")).arg("--samples").arg("3");
                    } else {
                        cmd.arg(format!("{dir}/one.pkl"));
                    }
                    let _ = cmd.args(&args).output();
                    let files: Vec<String> = if *batch { (0..3).map(|k| format!("{dir}/out/{k}.pkl")).collect() } else { vec![format!("{dir}/one.pkl")] };
                    let cfg = Cfg::new(*p).flags(*e, *b);
                    let mut fs = vec![];
                    for f in files {
                        let bytes = std::fs::read(&f).unwrap_or_default();
                        let (ops, m) = analyse(&bytes);
                        let r = crate::run::RunResult { out: Ok(bytes), panic: None, events: vec![] };
                        let tr = trace::parse(&[], 0, false);
                        let ctx = RunCtx { cfg: &cfg, script: &[], res: &r, tr: &tr, ops: &ops, m: m.as_ref() };
                        fs.extend(monitors::c10(&ctx));
                    }
                    let _ = std::fs::remove_dir_all(&dir);
                    (format!("pickle-fuzzer {} {}", if *batch { "--dir D --samples 3" } else { "FILE" }, args.join(" ")), fs)
                })
                .collect();
            let n = res.len() as u64;
            for (cmdline, fs) in res {
                for fd in fs.into_iter().take(1) {
                    rep.finding_raw(&format!("{}:cli", fd.class), &format!("{cmdline}: {}", fd.msg), json!({"kind":"cli","argv":cmdline}));
                }
            }
            rep.transitions += n;
            rep.set("cli_invocations", json!(n));
        } else {
            rep.machinery.push(format!("CLI binary {cli} not built (run through bin/check)"));
        }
    }
    // reuse: the second and third pickle of ONE generator (no reset in between) go through the same oracle
    {
        use rayon::prelude::*;
        let inputs: Vec<Vec<u8>> = vec![vec![], vec![1, 0x21, 0x07, 0x33, 0x02, 0x11], vec![0xff; 24], (1..=40u8).collect()];
        let jobs: Vec<(Cfg, usize, usize)> = (0..=5u8)
            .rev()
            .flat_map(|p| {
                let mut cs = vec![Cfg::new(p).flags(true, true).range(3, 9), Cfg::new(p).flags(true, true).range(3, 9).muts(&FULL, 0.5, false)];
                if !matches!(prop, "C01" | "C02" | "C03" | "C05" | "C17") {
                    cs.push(Cfg::new(p).flags(true, true).range(3, 9).muts(&FULL, 0.5, true));
                }
                cs.into_iter().flat_map(|c| (0..4usize).flat_map(move |a| (0..4usize).map({
                    let c = c.clone();
                    move |b| (c.clone(), a, b)
                })))
            })
            .collect();
        let res: Vec<(Cfg, usize, usize, Vec<Finding>)> = jobs
            .par_iter()
            .map(|(cfg, a, b)| {
                let mut g = cfg.build().with_seed(9);
                let _ = crate::run::run_on(&mut g, crate::run::Entropy::Bytes(&inputs[*a]), false, false);
                let _ = crate::run::run_on(&mut g, crate::run::Entropy::Seeded, false, false);
                let r = crate::run::run_on(&mut g, crate::run::Entropy::Bytes(&inputs[*b]), true, false);
                let tr = trace::parse(&r.events, inputs[*b].len(), !cfg.mutators.is_empty());
                let fs = match r.bytes() {
                    Some(bts) => {
                        let (ops, m) = analyse(bts);
                        let ctx = RunCtx { cfg, script: &[], res: &r, tr: &tr, ops: &ops, m: m.as_ref() };
                        mon(&ctx)
                    }
                    None => vec![],
                };
                (cfg.clone(), *a, *b, fs)
            })
            .collect();
        let mut n = 0u64;
        for (cfg, a, b, fs) in res {
            n += 1;
            for fd in fs {
                rep.finding_raw(
                    &format!("{}:on-reused-generator", fd.class),
                    &format!("third generation on one generator ({}): {}", cfg.describe(), fd.msg),
                    json!({"kind":"history","config":cfg.to_json(),"seed":9,"calls":[{"call":"generate_from_arbitrary","bytes_hex":lexer::hex(&inputs[a])},{"call":"generate"},{"call":"generate_from_arbitrary","bytes_hex":lexer::hex(&inputs[b])}],"failing_call":2}),
                );
            }
        }
        rep.transitions += n;
        rep.set("reused_generator_runs", json!(n));
    }
    // bind L and M to CPython on the collected outputs
    all_outputs.sort();
    all_outputs.dedup();
    let xr = xval::xval(prop, &all_outputs);
    rep.validated = xr.validated;
    for e in xr.errors {
        rep.machinery_fatal.push(e);
    }
    rep.set("plans", json!(n_plans));
    rep.assumptions = vec![
        "every entropy draw goes through GenerationSource (the hooks trace them); PRNG-mode executions are a subset of fuzzer-bytes executions".into(),
        "value draws are explored over the listed alphabets with a per-step deviation budget; control draws (opcode choice, FRAME coin, mutator gates) exhaustively".into(),
        "states are merged by kind-class key + enabled-opcode mask; abstraction_splits counts keys that differ only in the mask".into(),
        "reference lexer/machine are bound to CPython 3.11 pickletools by replaying the collected outputs (traces_validated_against_impl)".into(),
    ];
    rep.finish(true, "closure to fixpoint of the generator's reachable abstract states inside the stated box; every transition is a complete generation checked by the property's oracle")
}

/// re-execute a replay file through the public API only
pub fn replay(path: &str) -> i32 {
    let Ok(s) = std::fs::read_to_string(path) else {
        eprintln!("cannot read {path}");
        return 2;
    };
    let v: serde_json::Value = serde_json::from_str(&s).unwrap_or_default();
    if matches!(v["kind"].as_str(), Some("mutator") | Some("adapter") | Some("typeconfusion")) {
        println!("replaying {} [{}]: {}", v["property"].as_str().unwrap_or(""), v["class"].as_str().unwrap_or(""), v["message"].as_str().unwrap_or(""));
        return crate::units::replay(&v);
    }
    if v["kind"].as_str() == Some("big-memo") {
        println!("replaying {} [{}]: {}", v["property"].as_str().unwrap_or(""), v["class"].as_str().unwrap_or(""), v["message"].as_str().unwrap_or(""));
        let mut cfg = Cfg::from_json(&v["config"]);
        let n = v["entries"].as_u64().unwrap_or(258) as usize;
        let mut s = lexer::unhex(v["prefix_hex"].as_str().unwrap_or(""));
        let unit = lexer::unhex(v["unit_hex"].as_str().unwrap_or(""));
        for _ in 258..n {
            s.extend_from_slice(&unit);
        }
        s.push(v["last_choice_byte"].as_u64().unwrap_or(0) as u8);
        cfg.min = n + 2;
        cfg.max = n + 2;
        println!("config: {} ; script = prefix + unit x {} + last byte ({} bytes)", cfg.describe(), n.saturating_sub(258), s.len());
        let r = run_bytes(&cfg, &s, false, false);
        let tr = trace::parse(&[], 0, false);
        let prop = v["property"].as_str().unwrap_or("").to_string();
        return match r.bytes() {
            Some(b) => {
                let (ops, m) = analyse(b);
                let ctx = RunCtx { cfg: &cfg, script: &s, res: &r, tr: &tr, ops: &ops, m: m.as_ref() };
                let fs = monitor_for(&prop)(&ctx);
                for f in &fs {
                    println!("FINDING {} {}: {}", f.prop, f.class, f.msg);
                }
                println!("output: {} bytes, last opcodes: {}", b.len(), lexer::disasm(&b[b.len().saturating_sub(12)..]).replace('\n', " | "));
                (!fs.is_empty()) as i32
            }
            None => 1,
        };
    }
    if v["kind"].as_str() == Some("long-program") {
        println!("replaying {} [{}]: {}", v["property"].as_str().unwrap_or(""), v["class"].as_str().unwrap_or(""), v["message"].as_str().unwrap_or(""));
        let cfg = Cfg::from_json(&v["config"]);
        let t = v["opcodes"].as_u64().unwrap_or(0) as usize;
        let prefix = lexer::unhex(v["prefix_hex"].as_str().unwrap_or(""));
        let unit = lexer::unhex(v["unit_hex"].as_str().unwrap_or(""));
        let mut s = prefix.clone();
        while !unit.is_empty() && s.len() < prefix.len() + unit.len() * (t + 8) {
            s.extend_from_slice(&unit);
        }
        println!("config: {} ; fuzzer input = prefix {} + unit {} repeated ({} bytes)", cfg.describe(), lexer::hex(&prefix), lexer::hex(&unit), s.len());
        let (c2, s2) = (cfg.clone(), s.clone());
        let r = std::thread::Builder::new().stack_size(256 << 20).spawn(move || run_bytes(&c2, &s2, false, false)).ok().and_then(|h| h.join().ok());
        let Some(r) = r else { return 1 };
        let tr = trace::parse(&[], 0, false);
        let prop = v["property"].as_str().unwrap_or("").to_string();
        return match r.bytes() {
            Some(b) => {
                let (ops, m) = analyse(b);
                let ctx = RunCtx { cfg: &cfg, script: &s, res: &r, tr: &tr, ops: &ops, m: m.as_ref() };
                let fs = monitor_for(&prop)(&ctx);
                for f in &fs {
                    println!("FINDING {} {}: {}", f.prop, f.class, f.msg);
                }
                println!("output: {} bytes, last opcodes: {}", b.len(), lexer::disasm(&b[b.len().saturating_sub(12)..]).replace('\n', " | "));
                (!fs.is_empty()) as i32
            }
            None => 1,
        };
    }
    if v["kind"].as_str() == Some("hash-order") {
        println!("replaying {} [{}]: {}", v["property"].as_str().unwrap_or(""), v["class"].as_str().unwrap_or(""), v["message"].as_str().unwrap_or(""));
        return crate::purity::replay_hash_order(&v);
    }
    if v["kind"].as_str() == Some("pair") {
        println!("replaying {} [{}]: {}", v["property"].as_str().unwrap_or(""), v["class"].as_str().unwrap_or(""), v["message"].as_str().unwrap_or(""));
        return crate::purity::replay_pair(&v);
    }
    if matches!(v["kind"].as_str(), Some("cli") | Some("action") | Some("python") | Some("digest") | Some("sweep") | Some("schedule")) {
        println!("replaying {} [{}]: {}", v["property"].as_str().unwrap_or(""), v["class"].as_str().unwrap_or(""), v["message"].as_str().unwrap_or(""));
        println!("this finding involves a front end / several processes / a schedule; its inputs are:\n{}", serde_json::to_string_pretty(&v).unwrap_or_default());
        println!("re-run: bin/check {} quick", v["property"].as_str().unwrap_or("Cxx"));
        return 1;
    }
    if v["kind"].as_str() == Some("leak-history") {
        return crate::leak::replay_history(&v);
    }
    if v["kind"].as_str() == Some("child") {
        return crate::total::replay_child(&v);
    }
    if v["kind"].as_str() == Some("history") {
        println!("replaying {} [{}]: {}", v["property"].as_str().unwrap_or(""), v["class"].as_str().unwrap_or(""), v["message"].as_str().unwrap_or(""));
        return crate::hist::replay(&v);
    }
    let cfg = Cfg::from_json(&v["config"]);
    let prop = v["property"].as_str().unwrap_or("").to_string();
    println!("replaying {} [{}]: {}", prop, v["class"].as_str().unwrap_or(""), v["message"].as_str().unwrap_or(""));
    println!("config: {}", cfg.describe());
    let r = match v["kind"].as_str() {
        Some("seed") => {
            let seed = v["seed"].as_u64().unwrap_or(0);
            println!("entropy: with_seed({seed}).generate()");
            run_seed(&cfg, seed, true)
        }
        _ => {
            let script = lexer::unhex(v["script_hex"].as_str().unwrap_or(""));
            println!("entropy: generate_from_arbitrary({})", lexer::hex(&script));
            if prop == "C14" {
                return crate::leak::replay_bytes(&cfg, &script);
            }
            run_bytes(&cfg, &script, true, false)
        }
    };
    let tr = trace::parse(&r.events, 0, !cfg.mutators.is_empty());
    match r.bytes() {
        Some(b) => {
            println!("output ({} bytes): {}", b.len(), lexer::hex(b));
            print!("{}", lexer::disasm(b));
            let (ops, m) = analyse(b);
            let ctx = RunCtx { cfg: &cfg, script: &[], res: &r, tr: &tr, ops: &ops, m: m.as_ref() };
            let fs = monitor_for(&prop)(&ctx);
            for f in &fs {
                println!("FINDING {} {}: {}", f.prop, f.class, f.msg);
            }
            if fs.is_empty() {
                println!("no finding on replay");
                0
            } else {
                1
            }
        }
        None => {
            println!("no output: {:?} panic={:?}", r.out, r.panic);
            1
        }
    }
}

/// C15: unit enumeration of every gate + whole generations at rate 0.0 / 1.0 with the gate draw over the f64 alphabet
pub fn check_c15(tier: &str) -> i32 {
    let quick = tier == "quick";
    let mut rep = Report::new("C15", tier);
    crate::units::c15_unit(&mut rep, !quick);
    let mon = monitor_for("C15");
    let guard = |ctx: &RunCtx| -> Vec<Finding> { mon(ctx) };
    // (name, mutators, generator's unsafe flag, flag given to MutatorKind::create when it differs)
    let mut lists: Vec<(String, Vec<Mk>, bool, Option<bool>)> = vec![];
    for mk in Mk::ALL {
        lists.push((mk.name().to_string(), vec![mk], false, None));
        if matches!(mk, Mk::Memoindex | Mk::Typeconfusion) {
            lists.push((format!("{}-unsafe", mk.name()), vec![mk], true, None));
        }
    }
    lists.push(("full-safe".into(), FULL.to_vec(), false, None));
    lists.push(("full-unsafe".into(), FULL.to_vec(), true, None));
    lists.push(("reversed-safe".into(), rev_full(), false, None));
    lists.push(("character+stringlen".into(), vec![Mk::Character, Mk::Stringlen], false, None));
    // the two unsafe flags of the public API chosen independently: mutators created with one, the generator run with the other
    lists.push(("memoindex-created-unsafe/generator-safe".into(), vec![Mk::Memoindex], false, Some(true)));
    lists.push(("memoindex-created-safe/generator-unsafe".into(), vec![Mk::Memoindex], true, Some(false)));
    lists.push(("memoindex+offbyone-created-unsafe/generator-safe".into(), vec![Mk::Memoindex, Mk::Offbyone], false, Some(true)));
    lists.push(("full-created-unsafe/generator-safe".into(), FULL.to_vec(), false, Some(true)));
    lists.push(("full-created-safe/generator-unsafe".into(), FULL.to_vec(), true, Some(false)));
    let verbose = std::env::var("VERIF_VERBOSE").is_ok();
    for p in 0..=5u8 {
        for (name, list, uns, inst) in &lists {
            for rate in [0.0f64, 1.0] {
                let mut cfg = Cfg::new(p).flags(true, true).muts(list, rate, *uns);
                cfg.inst_unsafe = *inst;
                // plan A: every gate answer of the f64 alphabet, default value answers; plan B: gates {fires, declines},
                // one value deviation per step (e.g. the boundary table index that yields NaN)
                let mut plans: Vec<Opts> = vec![Opts {
                    max_depth: if quick || list.len() > 1 { 1 } else { 2 },
                    max_memo: 2,
                    dev_budget: 0,
                    ref_in_key: false,
                    gate_alphabet: if list.len() == 1 { crate::script::F64_ALPHABET[1..].to_vec() } else { vec![2.0, -1.0, f64::NAN] },
                    frame: FrameSel::Off,
                    ..Opts::default()
                }];
                if list.len() == 1 || !quick {
                    plans.push(Opts { max_depth: 1, max_memo: if quick { 1 } else { 2 }, dev_budget: 1, ref_in_key: false, frame: FrameSel::Off, ..Opts::default() });
                }
                for opts in plans {
                    let label = format!("P{p}/{name}@{rate}/D{}M{}b{}", opts.max_depth, opts.max_memo, opts.dev_budget);
                    let t0 = std::time::Instant::now();
                    let ex = Explorer { base_cfg: cfg.clone(), opts, monitor: &guard, xval_full: Default::default(), choice_discovery: Default::default() };
                    let out = ex.explore(None);
                    if verbose {
                        eprintln!("plan {label:<44} states={:>7} transitions={:>9} found={} {:.2}s", out.stats.states, out.stats.transitions, out.found.len(), t0.elapsed().as_secs_f64());
                    }
                    rep.add_stats(&label, &out.stats);
                    for fd in &out.found {
                        rep.finding(fd);
                    }
                    if let Some((s, k)) = out.sample_scripts.last() {
                        if rep.samples.len() < 4 {
                            let (c, r, _t) = ex.run(s, *k);
                            rep.sample(json!({"config": c.describe(), "script_hex": lexer::hex(s), "output_hex": r.bytes().map(lexer::hex)}));
                        }
                    }
                }
            }
        }
    }
    rep.assumptions = vec![
        "applicability of a mutator to a value kind is taken from the documentation of the mutator kinds, not from the code".into(),
        "gate draws range over {0.0,-0.0,0.5,1.0,1.0+eps,2.0,-1.0,+-inf,NaN,MIN_POSITIVE,MAX} and exhausted input; PRNG seeds are a labelled sweep".into(),
    ];
    rep.finish(true, "unit level: every (mutator, method, value, gate answer) combination; generation level: closure of the abstract state box with every gate draw enumerated over the f64 alphabet, at rate 0.0 and 1.0")
}
