//! Driving the real generator: configuration, one traced run, panic capture.

use pickle_fuzzer::verif::{self, Event};
use pickle_fuzzer::{Generator, MutatorKind, Version};
use std::cell::RefCell;
use std::panic::{catch_unwind, AssertUnwindSafe};

#[derive(Clone, Copy, Debug, PartialEq, Eq, Hash, PartialOrd, Ord)]
pub enum Mk {
    Bitflip,
    Boundary,
    Offbyone,
    Stringlen,
    Character,
    Memoindex,
    Typeconfusion,
}

impl Mk {
    pub const ALL: [Mk; 7] = [
        Mk::Bitflip,
        Mk::Boundary,
        Mk::Offbyone,
        Mk::Stringlen,
        Mk::Character,
        Mk::Memoindex,
        Mk::Typeconfusion,
    ];
    pub fn kind(self) -> MutatorKind {
        match self {
            Mk::Bitflip => MutatorKind::Bitflip,
            Mk::Boundary => MutatorKind::Boundary,
            Mk::Offbyone => MutatorKind::Offbyone,
            Mk::Stringlen => MutatorKind::Stringlen,
            Mk::Character => MutatorKind::Character,
            Mk::Memoindex => MutatorKind::Memoindex,
            Mk::Typeconfusion => MutatorKind::Typeconfusion,
        }
    }
    pub fn name(self) -> &'static str {
        match self {
            Mk::Bitflip => "bitflip",
            Mk::Boundary => "boundary",
            Mk::Offbyone => "offbyone",
            Mk::Stringlen => "stringlen",
            Mk::Character => "character",
            Mk::Memoindex => "memoindex",
            Mk::Typeconfusion => "typeconfusion",
        }
    }
    pub fn from_name(s: &str) -> Option<Mk> {
        Mk::ALL.iter().copied().find(|m| m.name() == s)
    }
}

#[derive(Clone, Debug, PartialEq)]
pub struct Cfg {
    pub proto: u8,
    pub min: usize,
    pub max: usize,
    pub mutators: Vec<Mk>,
    pub rate: f64,
    pub unsafe_mut: bool,
    pub ext: bool,
    pub buffer: bool,
    /// the flag handed to `MutatorKind::create` when it differs from the generator's own `unsafe_mutations`
    /// (the public API lets the two be chosen independently); None = the same flag for both, as the CLI does
    pub inst_unsafe: Option<bool>,
}

impl Cfg {
    pub fn new(proto: u8) -> Self {
        Cfg { proto, min: 60, max: 300, mutators: vec![], rate: 0.1, unsafe_mut: false, ext: false, buffer: false, inst_unsafe: None }
    }
    pub fn range(mut self, min: usize, max: usize) -> Self {
        self.min = min;
        self.max = max;
        self
    }
    pub fn flags(mut self, ext: bool, buffer: bool) -> Self {
        self.ext = ext;
        self.buffer = buffer;
        self
    }
    pub fn muts(mut self, m: &[Mk], rate: f64, unsafe_mut: bool) -> Self {
        self.mutators = m.to_vec();
        self.rate = rate;
        self.unsafe_mut = unsafe_mut;
        self
    }
    pub fn build(&self) -> Generator {
        let v = Version::try_from(self.proto as usize).expect("protocol 0..5");
        let mut g = Generator::new(v)
            .with_opcode_range(self.min, self.max)
            .with_unsafe_mutations(self.unsafe_mut)
            .with_ext_opcodes(self.ext)
            .with_buffer_opcodes(self.buffer);
        if !self.mutators.is_empty() {
            let inst = self.inst_unsafe.unwrap_or(self.unsafe_mut);
            g = g.with_mutators(self.mutators.iter().map(|m| m.kind().create(inst)).collect());
        }
        // the public field accepts any f64; the builder clamps to [0,1]
        g.mutation_rate = self.rate;
        g
    }
    pub fn describe(&self) -> String {
        format!(
            "P{} range=({},{}) mutators=[{}] rate={} unsafe={} ext={} buffer={}{}",
            self.proto,
            self.min,
            self.max,
            self.mutators.iter().map(|m| m.name()).collect::<Vec<_>>().join(","),
            self.rate,
            self.unsafe_mut,
            self.ext,
            self.buffer,
            match self.inst_unsafe {
                Some(b) => format!(" mutators-created-with-unsafe={b}"),
                None => String::new(),
            }
        )
    }
    pub fn to_json(&self) -> serde_json::Value {
        serde_json::json!({
            "protocol": self.proto, "min_opcodes": self.min, "max_opcodes": self.max,
            "mutators": self.mutators.iter().map(|m| m.name()).collect::<Vec<_>>(),
            "rate": if self.rate.is_finite() { serde_json::json!(self.rate) } else { serde_json::json!(format!("{}", self.rate)) },
            "unsafe_mutations": self.unsafe_mut, "allow_ext": self.ext, "allow_buffer": self.buffer,
            "mutators_created_with_unsafe": self.inst_unsafe,
        })
    }
    pub fn from_json(v: &serde_json::Value) -> Cfg {
        let rate = match &v["rate"] {
            serde_json::Value::String(s) => match s.as_str() {
                "NaN" => f64::NAN,
                "inf" => f64::INFINITY,
                "-inf" => f64::NEG_INFINITY,
                o => o.parse().unwrap_or(0.1),
            },
            o => o.as_f64().unwrap_or(0.1),
        };
        Cfg {
            proto: v["protocol"].as_u64().unwrap_or(3) as u8,
            min: v["min_opcodes"].as_u64().unwrap_or(60) as usize,
            max: v["max_opcodes"].as_u64().unwrap_or(300) as usize,
            mutators: v["mutators"]
                .as_array()
                .map(|a| a.iter().filter_map(|x| Mk::from_name(x.as_str().unwrap_or(""))).collect())
                .unwrap_or_default(),
            rate,
            unsafe_mut: v["unsafe_mutations"].as_bool().unwrap_or(false),
            ext: v["allow_ext"].as_bool().unwrap_or(false),
            buffer: v["allow_buffer"].as_bool().unwrap_or(false),
            inst_unsafe: v["mutators_created_with_unsafe"].as_bool(),
        }
    }
}

thread_local! {
    static LAST_PANIC: RefCell<Option<String>> = const { RefCell::new(None) };
}

/// install a panic hook that records the message instead of printing (once per process)
pub fn install_quiet_panic_hook() {
    std::panic::set_hook(Box::new(|info| {
        let msg = format!("{info}");
        LAST_PANIC.with(|p| *p.borrow_mut() = Some(msg));
    }));
}

pub fn take_panic() -> Option<String> {
    LAST_PANIC.with(|p| p.borrow_mut().take())
}

#[derive(Debug)]
pub struct RunResult {
    /// Ok(bytes) | Err(message of the returned error)
    pub out: Result<Vec<u8>, String>,
    pub panic: Option<String>,
    pub events: Vec<Event>,
}

impl RunResult {
    pub fn bytes(&self) -> Option<&[u8]> {
        self.out.as_ref().ok().map(|v| v.as_slice())
    }
}

/// how many zero bytes are appended to every script so that no draw is ever cut short;
/// zero bytes give the same answers as exhausted input
pub const ZERO_TAIL: usize = 1024;

/// one traced generation from fuzzer bytes on a fresh generator
pub fn run_bytes(cfg: &Cfg, data: &[u8], record: bool, graph: bool) -> RunResult {
    let _w = crate::watch::enter(cfg, data, None);
    let mut g = cfg.build();
    run_on(&mut g, Entropy::Bytes(data), record, graph)
}

pub fn run_seed(cfg: &Cfg, seed: u64, record: bool) -> RunResult {
    let _w = crate::watch::enter(cfg, &[], Some(seed));
    let mut g = cfg.build().with_seed(seed);
    run_on(&mut g, Entropy::Seeded, record, false)
}

pub enum Entropy<'a> {
    Bytes(&'a [u8]),
    /// `generate()` with whatever seed the generator carries
    Seeded,
}

pub fn run_on(g: &mut Generator, e: Entropy, record: bool, graph: bool) -> RunResult {
    if record {
        verif::start_recording(graph);
    }
    let r = catch_unwind(AssertUnwindSafe(|| match e {
        Entropy::Bytes(d) => g.generate_from_arbitrary(d),
        Entropy::Seeded => g.generate(),
    }));
    let events = if record { verif::stop_recording() } else { Vec::new() };
    match r {
        Ok(Ok(b)) => RunResult { out: Ok(b), panic: None, events },
        Ok(Err(e)) => RunResult { out: Err(format!("{e}")), panic: None, events },
        Err(_) => RunResult {
            out: Err("panic".into()),
            panic: Some(take_panic().unwrap_or_else(|| "panic (no message)".into())),
            events,
        },
    }
}
