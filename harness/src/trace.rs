//! Parsing the event trace of one generation into steps and draws.

use pickle_fuzzer::verif::{Event, Snap, ValueKind};

#[derive(Clone, Debug, PartialEq)]
pub struct DrawRec {
    pub method: &'static str,
    pub a: u64,
    pub b: u64,
    pub result: u64,
    /// offset into the fuzzer bytes where this draw started reading
    pub off: usize,
    /// bytes consumed
    pub width: usize,
    /// inside MutSite..MutDone or PostBegin..PostEnd
    pub in_mutation: bool,
    /// between StepBegin and Chosen (the opcode choice itself)
    pub is_choice: bool,
}

#[derive(Clone, Debug, PartialEq)]
pub struct MutRec {
    pub kind: ValueKind,
    pub input: Vec<u8>,
    pub fired: Option<String>,
    pub output: Option<Vec<u8>>,
}

#[derive(Clone, Debug)]
pub struct Step {
    pub valid: Vec<u8>,
    pub pre: Snap,
    pub chosen: Option<u8>,
    pub draws: Vec<DrawRec>,
    pub muts: Vec<MutRec>,
    pub rewrites: usize,
}

#[derive(Clone, Debug, Default)]
pub struct Parsed {
    pub header_draws: Vec<DrawRec>,
    pub use_frame: Option<bool>,
    pub header_snap: Option<Snap>,
    pub target: Option<usize>,
    pub steps: Vec<Step>,
    pub loop_end: Option<(Vec<u8>, Snap)>,
    /// every snapshot in event order: (label, snap)
    pub snaps: Vec<(&'static str, Snap)>,
    pub cleanup_emits: Vec<u8>,
    pub cleanup_done: Option<Snap>,
    pub done: Option<Snap>,
    /// draws after the body loop ended (cleanup must not draw)
    pub tail_draws: Vec<DrawRec>,
    /// fuzzer bytes consumed by header + body
    pub consumed: usize,
    /// consumed count at each StepBegin (index i = before step i) — script prefix lengths
    pub consumed_at_step: Vec<usize>,
    pub graphs: Vec<(usize, pickle_fuzzer::verif::Graph)>,
}

pub fn parse(events: &[Event], data_len: usize, has_mutators: bool) -> Parsed {
    let mut p = Parsed::default();
    let mut in_mut = false;
    let mut in_choice = false;
    let mut after_loop = false;
    let mut consumed = 0usize;
    for ev in events {
        match ev {
            Event::Draw { method, a, b, result, rem_before, rem_after } => {
                let d = DrawRec {
                    method,
                    a: *a,
                    b: *b,
                    result: *result,
                    off: data_len.saturating_sub(*rem_before),
                    width: rem_before.saturating_sub(*rem_after),
                    in_mutation: in_mut,
                    is_choice: in_choice,
                };
                consumed = data_len.saturating_sub(*rem_after);
                if after_loop {
                    p.tail_draws.push(d);
                } else if let Some(s) = p.steps.last_mut() {
                    s.draws.push(d);
                } else {
                    p.header_draws.push(d);
                }
            }
            Event::Header { use_frame, snap } => {
                p.use_frame = Some(*use_frame);
                p.header_snap = Some(snap.clone());
                p.snaps.push(("header", snap.clone()));
            }
            Event::Target { target } => p.target = Some(*target),
            Event::StepBegin { valid, snap } => {
                p.consumed_at_step.push(consumed);
                p.steps.push(Step {
                    valid: valid.clone(),
                    pre: snap.clone(),
                    chosen: None,
                    draws: vec![],
                    muts: vec![],
                    rewrites: 0,
                });
                p.snaps.push(("step", snap.clone()));
                in_choice = true;
                in_mut = false;
            }
            Event::Chosen { opcode } => {
                if let Some(s) = p.steps.last_mut() {
                    s.chosen = Some(*opcode);
                }
                in_choice = false;
            }
            Event::LoopEnd { valid, snap } => {
                p.loop_end = Some((valid.clone(), snap.clone()));
                p.snaps.push(("loop_end", snap.clone()));
                after_loop = true;
                in_choice = false;
                in_mut = false;
            }
            Event::AfterEmit { opcode, snap } => {
                p.snaps.push(("after_emit", snap.clone()));
                if after_loop {
                    p.cleanup_emits.push(*opcode);
                }
            }
            Event::CleanupDone { snap } => {
                p.cleanup_done = Some(snap.clone());
                p.snaps.push(("cleanup_done", snap.clone()));
            }
            Event::Done { snap } => {
                p.done = Some(snap.clone());
            }
            Event::MutSite { kind, input } => {
                // without mutators the hook returns early and no MutDone follows
                in_mut = has_mutators;
                if let Some(s) = p.steps.last_mut() {
                    s.muts.push(MutRec { kind: *kind, input: input.clone(), fired: None, output: None });
                }
            }
            Event::MutFired { mutator, .. } => {
                if let Some(m) = p.steps.last_mut().and_then(|s| s.muts.last_mut()) {
                    m.fired = Some(mutator.clone());
                }
            }
            Event::MutDone { output, .. } => {
                in_mut = false;
                if let Some(m) = p.steps.last_mut().and_then(|s| s.muts.last_mut()) {
                    m.output = Some(output.clone());
                }
            }
            Event::PostBegin => in_mut = true,
            Event::PostEnd => in_mut = false,
            Event::Rewrite { .. } => {
                if let Some(s) = p.steps.last_mut() {
                    s.rewrites += 1;
                }
            }
            Event::GraphAt { out_len, graph } => p.graphs.push((*out_len, graph.clone())),
        }
    }
    p.consumed = consumed;
    p
}
