//! E1: explicit-state exploration of the real generator through its entropy seam.
//!
//! A state is reached by a *script* (fuzzer bytes) and a body length k; the generator is re-executed from
//! scratch with `with_opcode_range(k,k).generate_from_arbitrary(script ++ zeros)` for every transition, so
//! every transition is a complete generation (header, body, cleanup, STOP, FRAME patch) of the real code.

use crate::lexer::{self, LexErr, Op};
use crate::refm::{self, Kind, Machine, Reject};
use crate::run::{run_bytes, Cfg, RunResult, ZERO_TAIL};
use crate::script;
use crate::trace::{self, DrawRec, Parsed};
use pickle_fuzzer::verif::{tag, Snap};
use rayon::prelude::*;
use std::collections::{BTreeMap, HashMap, HashSet};

#[derive(Clone, Debug)]
pub struct Finding {
    pub prop: &'static str,
    /// stable identifier of *what* fails (rule + opcode), used to match known findings
    pub class: String,
    pub msg: String,
}

pub struct MRun {
    pub machine: Machine,
    pub reject: Option<Reject>,
    /// (end offset, stack kinds, memo keys) after each accepted opcode
    pub trace: Vec<(usize, Vec<Kind>, usize)>,
}

/// everything the monitors may look at for one complete generation
pub struct RunCtx<'a> {
    pub cfg: &'a Cfg,
    pub script: &'a [u8],
    pub res: &'a RunResult,
    pub tr: &'a Parsed,
    pub ops: &'a Result<(Vec<Op>, usize), LexErr>,
    pub m: Option<&'a MRun>,
}

pub fn analyse(out: &[u8]) -> (Result<(Vec<Op>, usize), LexErr>, Option<MRun>) {
    let ops = lexer::genops(out);
    let m = match &ops {
        Ok((o, _)) => {
            let (machine, reject, trace) = refm::run(o, true);
            Some(MRun { machine, reject, trace })
        }
        Err(_) => None,
    };
    (ops, m)
}

#[derive(Clone, Copy, Debug, PartialEq)]
pub enum FrameSel {
    Both,
    Off,
    On,
}

#[derive(Clone, Debug)]
pub struct Opts {
    /// box: states with a deeper simulated stack / larger memo are checked but not expanded
    pub max_depth: usize,
    pub max_memo: usize,
    /// value-draw deviation budget per step
    pub dev_budget: usize,
    pub frame: FrameSel,
    /// include the reference machine's kind classes in the state key (safe configurations only)
    pub ref_in_key: bool,
    /// hard cap on states (reported as a cap if hit)
    pub max_states: usize,
    /// optional cap on path length (number of body opcodes); usize::MAX = none (fixpoint)
    pub max_path: usize,
    /// collect up to this many distinct outputs for cross-validation with CPython
    pub xval_cap: usize,
    /// explore gates of mutators (gen_f64 inside mutation context) as control draws
    pub gates_as_control: bool,
    /// use the alias-preserving object graph as state key (K_shape)
    pub shape_key: bool,
    /// state key = kind classes + aliasing relation among the roots (stack slots, memo entries): which roots are the
    /// same cell and which root reaches which through >= 1 edges. Sound for cycle creation (see DESIGN §10.8).
    pub alias_key: bool,
    /// use the full variant tag per slot instead of the collapsed class (fallback when the class key turns out too coarse)
    pub fine_key: bool,
    /// states one slot deeper than the box are still expanded with their operand-consuming opcodes
    /// (their successors are checked, not enqueued): guards are exercised at depth D+1 at a fraction of the cost
    pub fringe_consumers: bool,
    /// record (script, k, output) of every run (C07 replays them elsewhere)
    pub collect_runs: bool,
    /// answers tried for a mutator gate besides the default 0.0 (empty = just 2.0, which declines at every rate in [0,1])
    pub gate_alphabet: Vec<f64>,
}

impl Default for Opts {
    fn default() -> Self {
        Opts {
            max_depth: 3,
            max_memo: 1,
            dev_budget: 0,
            frame: FrameSel::Both,
            ref_in_key: true,
            max_states: 50_000_000,
            max_path: usize::MAX,
            xval_cap: 0,
            gates_as_control: true,
            shape_key: false,
            gate_alphabet: vec![],
            collect_runs: false,
            fringe_consumers: false,
            alias_key: false,
            fine_key: false,
        }
    }
}

#[derive(Clone, Debug)]
pub struct Rep {
    pub script: Vec<u8>,
    pub k: usize,
    pub enabled: Vec<u8>,
}

#[derive(Clone, Debug, Default)]
pub struct Stats {
    pub states: u64,
    pub transitions: u64,
    pub runs: u64,
    pub pruned: u64,
    pub levels: usize,
    pub cap_hit: bool,
    pub abstraction_splits: u64,
    pub op_transitions: BTreeMap<u8, u64>,
    pub emitted_ops: BTreeMap<u8, u64>,
    pub distinct_outputs_sampled: u64,
    pub deviation_runs: u64,
    pub max_script_len: usize,
    pub machinery_errors: Vec<String>,
    /// runs that returned no bytes (panic / Err): the property's oracle cannot judge them (C09's business)
    pub no_output_runs: u64,
    pub fringe_states: u64,
    /// splits seen by a first pass with the collapsed class key (the reported pass then used full variant tags)
    pub coarse_key_splits: u64,
    pub unselectable_choices: u64,
    pub fringe_transitions: u64,
    pub first_no_output: Option<String>,
}

impl Stats {
    pub fn add(&mut self, o: &Stats) {
        self.states += o.states;
        self.transitions += o.transitions;
        self.runs += o.runs;
        self.pruned += o.pruned;
        self.levels = self.levels.max(o.levels);
        self.cap_hit |= o.cap_hit;
        self.abstraction_splits += o.abstraction_splits;
        for (k, v) in &o.op_transitions {
            *self.op_transitions.entry(*k).or_default() += v;
        }
        for (k, v) in &o.emitted_ops {
            *self.emitted_ops.entry(*k).or_default() += v;
        }
        self.distinct_outputs_sampled += o.distinct_outputs_sampled;
        self.deviation_runs += o.deviation_runs;
        self.max_script_len = self.max_script_len.max(o.max_script_len);
        self.machinery_errors.extend(o.machinery_errors.iter().cloned());
        self.no_output_runs += o.no_output_runs;
        self.fringe_states += o.fringe_states;
        self.coarse_key_splits += o.coarse_key_splits;
        self.unselectable_choices += o.unselectable_choices;
        self.fringe_transitions += o.fringe_transitions;
        if self.first_no_output.is_none() {
            self.first_no_output = o.first_no_output.clone();
        }
    }
}

#[derive(Clone, Debug)]
pub struct Found {
    pub finding: Finding,
    pub cfg: Cfg,
    pub script: Vec<u8>,
}

pub struct Outcome {
    pub stats: Stats,
    /// first (in deterministic order) witness per finding class
    pub found: Vec<Found>,
    pub xval_outputs: Vec<Vec<u8>>,
    /// shortest witness script per emitted opcode (C12)
    pub witnesses: BTreeMap<u8, (Vec<u8>, usize)>,
    pub sample_scripts: Vec<(Vec<u8>, usize)>,
    pub runs: Vec<(Vec<u8>, usize, Vec<u8>)>,
}

pub fn gen_class(t: u8) -> u8 {
    match t {
        tag::MARK => 0,
        tag::LIST => 1,
        tag::DICT => 2,
        tag::SET => 3,
        tag::TUPLE => 4,
        tag::STRING => 5,
        tag::CALLABLE | tag::GLOBAL => 6,
        tag::INSTANCE => 7,
        // bytes-like objects are told apart from the other scalars since READONLY_BUFFER's guard asks for them
        tag::BYTES | tag::BYTEARRAY => 9,
        _ => 8,
    }
}

/// slot class used in keys: the collapsed class, or (fine mode) the full variant tag
fn slot_class(t: u8, fine: bool) -> u8 {
    if fine {
        0x40 | t
    } else {
        gen_class(t)
    }
}

fn mask_of(valid: &[u8]) -> [u8; 32] {
    let mut m = [0u8; 32];
    for &c in valid {
        m[(c >> 3) as usize] |= 1 << (c & 7);
    }
    m
}

/// abstract state key (K_kind). `refstate` = reference machine stack kinds + memo kinds at the same point.
pub fn kind_key(
    use_frame: bool,
    snap: &Snap,
    valid: &[u8],
    refstate: Option<(&[Kind], &BTreeMap<i128, Kind>)>,
) -> (Vec<u8>, Vec<u8>) {
    kind_key_f(use_frame, snap, valid, refstate, false)
}

pub fn kind_key_f(
    use_frame: bool,
    snap: &Snap,
    valid: &[u8],
    refstate: Option<(&[Kind], &BTreeMap<i128, Kind>)>,
    fine: bool,
) -> (Vec<u8>, Vec<u8>) {
    let mut k = Vec::with_capacity(16 + 2 * snap.stack.len() + 4 * snap.memo.len());
    k.push(use_frame as u8);
    k.push(snap.proto_emitted as u8);
    k.push(snap.stack.len() as u8);
    for (i, t) in snap.stack.iter().enumerate() {
        k.push(slot_class(*t, fine));
        if let Some((rs, _)) = refstate {
            k.push(rs.get(i).map(|x| x.class()).unwrap_or(0xff));
        }
    }
    k.push(snap.memo.len() as u8);
    for (key, t) in &snap.memo {
        k.extend_from_slice(&(*key as u32).to_le_bytes());
        k.push(slot_class(*t, fine));
        if let Some((_, rm)) = refstate {
            k.push(rm.get(&(*key as i128)).map(|x| x.class()).unwrap_or(0xff));
        }
    }
    let base = k.clone();
    k.extend_from_slice(&mask_of(valid));
    (k, base)
}

/// opcodes that take operands from the stack (pickletools stack_before non-empty) — the ones with kind/depth guards
pub fn is_consumer(code: u8) -> bool {
    matches!(
        code,
        b'a' | b'e' | b'l' | b't' | 0x85 | 0x86 | 0x87 | b'd' | b's' | b'u' | 0x90 | 0x91 | b'0' | b'1' | b'p' | b'q' | b'r' | 0x94
            | 0x93 | b'R' | b'b' | b'i' | b'o' | 0x81 | 0x92 | b'Q' | 0x98 | b'2'
    )
}

pub type MonitorFn<'m> = dyn Fn(&RunCtx) -> Vec<Finding> + Sync + 'm;

/// 128-bit fingerprint of a canonical key (two independently keyed SipHash-1-3 values)
pub fn fp(bytes: &[u8]) -> u128 {
    use std::hash::Hasher;
    let mut h1 = std::collections::hash_map::DefaultHasher::new();
    h1.write_u64(0x9e37_79b9_7f4a_7c15);
    h1.write(bytes);
    let mut h2 = std::collections::hash_map::DefaultHasher::new();
    h2.write_u64(0xc2b2_ae3d_27d4_eb4f);
    h2.write(bytes);
    h2.write_u8(0xa5);
    ((h1.finish() as u128) << 64) | h2.finish() as u128
}

struct Succ {
    key: u128,
    base_key: u128,
    rep: Rep,
    depth: usize,
    memo: usize,
    violated: bool,
}

#[derive(Default)]
struct Expansion {
    succs: Vec<Succ>,
    stats: Stats,
    found: Vec<Found>,
    outputs: Vec<Vec<u8>>,
    witnesses: BTreeMap<u8, (Vec<u8>, usize)>,
    runs: Vec<(Vec<u8>, usize, Vec<u8>)>,
}

pub struct Explorer<'a> {
    pub base_cfg: Cfg,
    pub opts: Opts,
    pub monitor: &'a MonitorFn<'a>,
    pub xval_full: std::sync::atomic::AtomicBool,
    /// set once the opcode choice turned out not to be a single uniform index draw
    pub choice_discovery: std::sync::atomic::AtomicBool,
}

impl<'a> Explorer<'a> {
    fn cfg_k(&self, k: usize) -> Cfg {
        let mut c = self.base_cfg.clone();
        c.min = k;
        c.max = k;
        c
    }

    /// run script (+ zero tail) with k body opcodes; returns (result, parsed trace, padded length)
    pub fn run(&self, script: &[u8], k: usize) -> (Cfg, RunResult, Parsed) {
        let cfg = self.cfg_k(k);
        let mut data = Vec::with_capacity(script.len() + ZERO_TAIL);
        data.extend_from_slice(script);
        data.resize(script.len() + ZERO_TAIL, 0);
        let res = run_bytes(&cfg, &data, true, self.opts.shape_key || self.opts.alias_key);
        let tr = trace::parse(&res.events, data.len(), !cfg.mutators.is_empty());
        (cfg, res, tr)
    }

    /// process one complete run: monitors, successor key. Returns None for the successor if the run is unusable.
    fn process(&self, script: &[u8], k: usize, exp: &mut Expansion, is_dev: bool) -> Option<(Parsed, Option<Succ>)> {
        let (cfg, res, tr) = self.run(script, k);
        exp.stats.runs += 1;
        exp.stats.transitions += 1;
        if is_dev {
            exp.stats.deviation_runs += 1;
        }
        exp.stats.max_script_len = exp.stats.max_script_len.max(tr.consumed);
        if tr.consumed + 64 > script.len() + ZERO_TAIL {
            exp.stats.machinery_errors.push(format!(
                "zero tail too short: consumed {} of {} (script {})",
                tr.consumed,
                script.len() + ZERO_TAIL,
                lexer::hex(script)
            ));
        }
        if res.bytes().is_none() {
            exp.stats.no_output_runs += 1;
            if exp.stats.first_no_output.is_none() {
                exp.stats.first_no_output = Some(format!("{} script {}: {:?} {:?}", cfg.describe(), lexer::hex(script), res.out.as_ref().err(), res.panic));
            }
        }
        let (ops, m) = match res.bytes() {
            Some(b) => analyse(b),
            None => (Err(LexErr { kind: lexer::LexErrKind::Malformed, pos: 0, msg: "no output".into() }), None),
        };
        let ctx = RunCtx { cfg: &cfg, script, res: &res, tr: &tr, ops: &ops, m: m.as_ref() };
        let findings = (self.monitor)(&ctx);
        let violated = !findings.is_empty();
        for f in findings {
            // keep one (the shortest) witness per finding class and expansion
            match exp.found.iter_mut().find(|x| x.finding.class == f.class && x.finding.prop == f.prop) {
                Some(old) => {
                    if (script.len(), script) < (old.script.len(), old.script.as_slice()) {
                        *old = Found { finding: f, cfg: cfg.clone(), script: script.to_vec() };
                    }
                }
                None => exp.found.push(Found { finding: f, cfg: cfg.clone(), script: script.to_vec() }),
            }
        }
        if self.opts.collect_runs {
            exp.runs.push((script.to_vec(), k, res.bytes().map(|b| b.to_vec()).unwrap_or_default()));
        }
        if let Some(b) = res.bytes() {
            if self.opts.xval_cap > 0 && !self.xval_full.load(std::sync::atomic::Ordering::Relaxed) {
                exp.outputs.push(b.to_vec());
            }
            if let Ok((o, _)) = &ops {
                for op in o {
                    *exp.stats.emitted_ops.entry(op.code).or_default() += 1;
                    let better = match exp.witnesses.get(&op.code) {
                        Some((os, _)) => (script.len(), script) < (os.len(), os.as_slice()),
                        None => true,
                    };
                    if better {
                        exp.witnesses.insert(op.code, (script.to_vec(), k));
                    }
                }
            }
        }
        // successor state
        let Some((valid, snap)) = tr.loop_end.clone() else {
            return Some((tr, None));
        };
        if tr.steps.len() != k {
            // body ended early (no valid opcode) — no successor
            return Some((tr, None));
        }
        let use_frame = tr.use_frame.unwrap_or(false);
        let (key, base_key) = if self.opts.alias_key {
            let g = tr.graphs.iter().find(|(ol, _)| *ol == snap.out_len).map(|(_, g)| g.clone());
            let (mut kk, _) = kind_key_f(use_frame, &snap, &valid, None, self.opts.fine_key);
            if let Some(g) = g {
                let roots: Vec<u32> = g.stack.iter().copied().chain(g.memo.iter().map(|(_, n)| *n)).collect();
                // strict reachability (>= 1 edge) from every root node
                let n = g.nodes.len();
                for (i, &ri) in roots.iter().enumerate() {
                    let mut seen = vec![false; n];
                    let mut work: Vec<u32> = g.nodes[ri as usize].1.clone();
                    while let Some(v) = work.pop() {
                        if !seen[v as usize] {
                            seen[v as usize] = true;
                            work.extend(g.nodes[v as usize].1.iter().copied());
                        }
                    }
                    for (j, &rj) in roots.iter().enumerate() {
                        let same = i != j && ri == rj;
                        kk.push((same as u8) | ((seen[rj as usize] as u8) << 1));
                    }
                }
            }
            (kk.clone(), kk)
        } else if self.opts.shape_key {
            let g = tr.graphs.iter().find(|(ol, _)| *ol == snap.out_len).map(|(_, g)| g.clone());
            let mut kk = vec![use_frame as u8, snap.proto_emitted as u8];
            if let Some(g) = g {
                for (t, ch) in &g.nodes {
                    kk.push(*t);
                    kk.push(ch.len() as u8);
                    for c in ch {
                        kk.extend_from_slice(&c.to_le_bytes());
                    }
                }
                kk.push(0xfe);
                for s in &g.stack {
                    kk.extend_from_slice(&s.to_le_bytes());
                }
                kk.push(0xfd);
                for (mk, n) in &g.memo {
                    kk.extend_from_slice(&(*mk as u32).to_le_bytes());
                    kk.extend_from_slice(&n.to_le_bytes());
                }
            }
            (kk.clone(), kk)
        } else if self.opts.ref_in_key {
            // reference state at the end of the body
            let rs = m.as_ref().and_then(|m| {
                if snap.out_len == 0 {
                    return None;
                }
                m.trace.iter().find(|(end, _, _)| *end == snap.out_len)
            });
            match (rs, m.as_ref()) {
                (Some((_, st, nmemo)), Some(mr)) => {
                    // memo kinds at that point: the first `nmemo` keys defined (entries are never redefined)
                    let memo_then: BTreeMap<i128, Kind> = mr.machine.memo_order[..*nmemo]
                        .iter()
                        .filter_map(|k| mr.machine.memo.get(k).map(|v| (*k, *v)))
                        .collect();
                    kind_key_f(use_frame, &snap, &valid, Some((st.as_slice(), &memo_then)), self.opts.fine_key)
                }
                _ => {
                    let empty = BTreeMap::new();
                    kind_key_f(use_frame, &snap, &valid, if snap.out_len == 0 { Some((&[], &empty)) } else { None }, self.opts.fine_key)
                }
            }
        } else {
            kind_key_f(use_frame, &snap, &valid, None, self.opts.fine_key)
        };
        let rep = Rep { script: script[..tr.consumed.min(script.len())].to_vec(), k, enabled: valid };
        let mut rep = rep;
        if tr.consumed > script.len() {
            rep.script.resize(tr.consumed, 0);
        }
        let succ = Succ { key: fp(&key), base_key: fp(&base_key), rep, depth: snap.stack.len(), memo: snap.memo.len(), violated };
        Some((tr, Some(succ)))
    }

    /// enumerate deviations of the draws of the last step, after index `from`
    fn deviate(&self, script: &[u8], k: usize, tr: &Parsed, from: usize, budget: usize, exp: &mut Expansion) {
        let Some(step) = tr.steps.last() else { return };
        let draws: Vec<DrawRec> = step.draws.clone();
        for j in from..draws.len() {
            let d = &draws[j];
            if d.is_choice {
                continue;
            }
            let is_gate = self.opts.gates_as_control && d.in_mutation && d.method == "gen_f64";
            let alts = if is_gate && self.opts.gate_alphabet.is_empty() {
                script::gate_alternatives()
            } else if is_gate {
                self.opts.gate_alphabet.iter().map(|g| (g.to_bits().to_le_bytes().to_vec(), Some(g.to_bits()))).collect()
            } else {
                script::alternatives(d)
            };
            if !is_gate && budget == 0 {
                continue;
            }
            for (bytes, want) in alts {
                if d.off > script.len() + ZERO_TAIL {
                    continue;
                }
                let mut s2: Vec<u8> = Vec::with_capacity(d.off + bytes.len());
                if d.off <= script.len() {
                    s2.extend_from_slice(&script[..d.off]);
                } else {
                    s2.extend_from_slice(script);
                    s2.resize(d.off, 0);
                }
                s2.extend_from_slice(&bytes);
                let Some((tr2, succ)) = self.process(&s2, k, exp, true) else { continue };
                // replay discipline: the prefix must be answered identically, the patched draw as intended
                if let Some(st2) = tr2.steps.last() {
                    let same_prefix = st2.draws.len() > j && st2.draws[..j] == draws[..j];
                    let hit = st2.draws.get(j).map(|x| want.map(|w| x.result == w).unwrap_or(true)).unwrap_or(false);
                    if !same_prefix || !hit {
                        exp.stats.machinery_errors.push(format!(
                            "replay divergence at draw {j} ({}) script {} k={k}: same_prefix={same_prefix} hit={hit}",
                            d.method,
                            lexer::hex(&s2)
                        ));
                        continue;
                    }
                }
                if let Some(s) = succ {
                    exp.succs.push(s);
                }
                self.deviate(&s2, k, &tr2, j + 1, if is_gate { budget } else { budget - 1 }, exp);
            }
        }
    }

    fn expand(&self, rep: &Rep, only_consumers: bool) -> Expansion {
        use std::sync::atomic::Ordering;
        if !self.choice_discovery.load(Ordering::Relaxed) {
            // fast path: the opcode is picked by one uniform draw among the enabled ones (checked on every run)
            let mut exp = Expansion::default();
            let n = rep.enabled.len() as u64;
            let mut diverged = false;
            for i in 0..n {
                if only_consumers && !is_consumer(rep.enabled[i as usize]) {
                    continue;
                }
                let mut s = rep.script.clone();
                s.extend_from_slice(&script::enc_index(i, n));
                let k = rep.k + 1;
                let Some((tr, succ)) = self.process(&s, k, &mut exp, false) else { continue };
                let chosen = tr.steps.last().and_then(|st| st.chosen);
                if tr.steps.len() == k && chosen != Some(rep.enabled[i as usize]) {
                    // the selection mechanism is not "index i of the enabled list": learn it by enumeration instead
                    diverged = true;
                    break;
                }
                *exp.stats.op_transitions.entry(rep.enabled[i as usize]).or_default() += 1;
                if let Some(su) = succ {
                    exp.succs.push(su);
                }
                self.deviate(&s, k, &tr, 0, self.opts.dev_budget, &mut exp);
            }
            if !diverged {
                return exp;
            }
            self.choice_discovery.store(true, Ordering::Relaxed);
        }
        self.expand_by_discovery(rep, only_consumers)
    }

    /// Fallback when the opcode choice is not a single uniform index draw (e.g. a weighted selection): enumerate the
    /// answers of the draws made between StepBegin and Chosen and keep, per enabled opcode, the first script that
    /// selects it. Enabled opcodes that no enumerated answer selects are reported (`unselectable_choices`).
    fn expand_by_discovery(&self, rep: &Rep, only_consumers: bool) -> Expansion {
        let mut exp = Expansion::default();
        let k = rep.k + 1;
        let mut done: HashSet<u8> = HashSet::new();
        let mut queue: std::collections::VecDeque<(Vec<u8>, usize)> = std::collections::VecDeque::new();
        let mut tried: HashSet<Vec<u8>> = HashSet::new();
        queue.push_back((rep.script.clone(), 0));
        let mut runs = 0usize;
        while let Some((s, from)) = queue.pop_front() {
            if !tried.insert(s.clone()) || runs >= 4096 || done.len() == rep.enabled.len() {
                continue;
            }
            runs += 1;
            let Some((tr, succ)) = self.process(&s, k, &mut exp, false) else { continue };
            let Some(st) = tr.steps.last() else { continue };
            if tr.steps.len() != k {
                continue;
            }
            if let Some(c) = st.chosen {
                if rep.enabled.contains(&c) && done.insert(c) && !(only_consumers && !is_consumer(c)) {
                    *exp.stats.op_transitions.entry(c).or_default() += 1;
                    if let Some(su) = succ {
                        exp.succs.push(su);
                    }
                    self.deviate(&s, k, &tr, 0, self.opts.dev_budget, &mut exp);
                }
            }
            let cds: Vec<DrawRec> = st.draws.iter().filter(|d| d.is_choice).cloned().collect();
            for (ci, d) in cds.iter().enumerate().skip(from) {
                let span = match d.method {
                    "choose_index" => d.a,
                    "gen_range" => d.b.saturating_sub(d.a),
                    _ => 0,
                };
                let alts: Vec<Vec<u8>> = if d.method == "gen_bool" {
                    vec![vec![0], vec![1]]
                } else if (2..=512).contains(&span) {
                    (0..span).map(|v| script::enc_index(v, span)).collect()
                } else {
                    script::alternatives(d).into_iter().map(|(b, _)| b).collect()
                };
                for bytes in alts {
                    let mut s2: Vec<u8> = s[..d.off.min(s.len())].to_vec();
                    s2.resize(d.off, 0);
                    s2.extend_from_slice(&bytes);
                    queue.push_back((s2, ci + 1));
                }
            }
        }
        exp.stats.unselectable_choices += (rep.enabled.len() - done.len()) as u64;
        exp
    }

    /// initial representatives: the state after the header (one per FRAME coin outcome)
    pub fn initial(&self) -> (Vec<Rep>, Expansion) {
        let mut exp = Expansion::default();
        let mut reps = vec![];
        let coins: Vec<Vec<u8>> = if self.base_cfg.proto >= 4 {
            match self.opts.frame {
                FrameSel::Both => vec![vec![0], vec![1]],
                FrameSel::Off => vec![vec![0]],
                FrameSel::On => vec![vec![1]],
            }
        } else {
            vec![vec![]]
        };
        for c in coins {
            if let Some((_tr, Some(s))) = self.process(&c, 0, &mut exp, false) {
                reps.push(s);
            }
        }
        let mut out = vec![];
        for s in reps {
            out.push(s.rep.clone());
            exp.succs.push(s);
        }
        (out, exp)
    }

    /// breadth-first closure; if the class key turns out too coarse (two states with equal classes but different
    /// enabled-opcode masks: `abstraction_splits`), the closure is repeated with the full variant tags in the key
    pub fn explore(&self, start: Option<Vec<Rep>>) -> Outcome {
        let out = self.explore_once(start.clone());
        if out.stats.abstraction_splits == 0 || self.opts.fine_key || self.opts.shape_key {
            return out;
        }
        let mut opts = self.opts.clone();
        opts.fine_key = true;
        let ex2 = Explorer { base_cfg: self.base_cfg.clone(), opts, monitor: self.monitor, xval_full: Default::default(), choice_discovery: Default::default() };
        let mut out2 = ex2.explore_once(start);
        out2.stats.coarse_key_splits = out.stats.abstraction_splits;
        out2.stats.runs += out.stats.runs;
        // findings of the first pass are real runs as well
        out2.found.extend(out.found);
        out2
    }

    /// breadth-first closure from the given start representatives (or the initial states)
    pub fn explore_once(&self, start: Option<Vec<Rep>>) -> Outcome {
        let mut stats = Stats::default();
        let mut seen: HashSet<u128> = HashSet::new();
        let mut base_seen: HashMap<u128, u32> = HashMap::new();
        let mut found: BTreeMap<String, Found> = BTreeMap::new();
        let mut xval: Vec<Vec<u8>> = vec![];
        let mut xval_seen: HashSet<Vec<u8>> = HashSet::new();
        let mut witnesses: BTreeMap<u8, (Vec<u8>, usize)> = BTreeMap::new();
        let mut samples: Vec<(Vec<u8>, usize)> = vec![];
        let all_runs: std::cell::RefCell<Vec<(Vec<u8>, usize, Vec<u8>)>> = std::cell::RefCell::new(vec![]);

        let mut absorb = |exp: Expansion,
                          stats: &mut Stats,
                          found: &mut BTreeMap<String, Found>,
                          xval: &mut Vec<Vec<u8>>,
                          xval_seen: &mut HashSet<Vec<u8>>,
                          witnesses: &mut BTreeMap<u8, (Vec<u8>, usize)>|
         -> Vec<Succ> {
            stats.add(&exp.stats);
            all_runs.borrow_mut().extend(exp.runs);
            for f in exp.found {
                let key = format!("{}|{}", f.finding.prop, f.finding.class);
                match found.get(&key) {
                    Some(old) if (old.script.len(), &old.script) <= (f.script.len(), &f.script) => {}
                    _ => {
                        found.insert(key, f);
                    }
                }
            }
            for o in exp.outputs {
                if xval.len() < self.opts.xval_cap && xval_seen.insert(o.clone()) {
                    xval.push(o);
                }
            }
            if xval.len() >= self.opts.xval_cap {
                self.xval_full.store(true, std::sync::atomic::Ordering::Relaxed);
            }
            for (c, (s, k)) in exp.witnesses {
                match witnesses.get(&c) {
                    Some((os, _)) if (os.len(), os) <= (s.len(), &s) => {}
                    _ => {
                        witnesses.insert(c, (s, k));
                    }
                }
            }
            exp.succs
        };

        let mut frontier: Vec<Rep> = match start {
            Some(reps) => reps,
            None => {
                let (_reps, exp) = self.initial();
                let succs = absorb(exp, &mut stats, &mut found, &mut xval, &mut xval_seen, &mut witnesses);
                let mut fr = vec![];
                for s in succs {
                    if seen.insert(s.key) {
                        *base_seen.entry(s.base_key).or_default() += 1;
                        stats.states += 1;
                        fr.push(s.rep);
                    }
                }
                fr
            }
        };

        let mut fringe: Vec<Rep> = vec![];
        let mut level = 0usize;
        while !frontier.is_empty() {
            level += 1;
            if level > self.opts.max_path {
                break;
            }
            frontier.sort_by(|a, b| (a.script.len(), &a.script).cmp(&(b.script.len(), &b.script)));
            if samples.len() < 8 {
                if let Some(r) = frontier.get(frontier.len() / 2) {
                    samples.push((r.script.clone(), r.k));
                }
            }
            // expand in parallel; workers drop successors whose key was already seen at an earlier level
            let mut next: Vec<Succ> = vec![];
            for chunk in frontier.chunks(8192) {
                let seen_ref = &seen;
                let exps: Vec<Expansion> = chunk
                    .par_iter()
                    .map(|r| {
                        let mut e = self.expand(r, false);
                        e.succs.retain(|s| !seen_ref.contains(&s.key));
                        e.succs.sort_by(|a, b| (a.key, a.rep.script.len(), &a.rep.script).cmp(&(b.key, b.rep.script.len(), &b.rep.script)));
                        e.succs.dedup_by(|b, a| a.key == b.key);
                        e
                    })
                    .collect();
                for e in exps {
                    let succs = absorb(e, &mut stats, &mut found, &mut xval, &mut xval_seen, &mut witnesses);
                    next.extend(succs);
                }
            }
            next.par_sort_by(|a, b| (a.key, a.rep.script.len(), &a.rep.script).cmp(&(b.key, b.rep.script.len(), &b.rep.script)));
            next.dedup_by(|b, a| a.key == b.key);
            let mut nf = vec![];
            for s in next {
                if seen.contains(&s.key) {
                    continue;
                }
                if stats.states as usize >= self.opts.max_states {
                    stats.cap_hit = true;
                    break;
                }
                seen.insert(s.key);
                let e = base_seen.entry(s.base_key).or_default();
                *e += 1;
                if *e > 1 {
                    stats.abstraction_splits += 1;
                }
                stats.states += 1;
                if s.violated {
                    continue; // futures of a violating run are not explored
                }
                if s.depth > self.opts.max_depth || s.memo > self.opts.max_memo {
                    stats.pruned += 1;
                    if self.opts.fringe_consumers && s.depth == self.opts.max_depth + 1 && s.memo <= self.opts.max_memo {
                        fringe.push(s.rep);
                    }
                    continue;
                }
                nf.push(s.rep);
            }
            frontier = nf;
            stats.levels = level;
            if std::env::var("VERIF_TRACE_LEVELS").is_ok() {
                eprintln!("  level {level}: states={} transitions={} frontier={} pruned={} base_keys={} splits={}", stats.states, stats.transitions, frontier.len(), stats.pruned, base_seen.len(), stats.abstraction_splits);
                if let Some(r) = frontier.first() { eprintln!("    first rep k={} script={}", r.k, lexer::hex(&r.script)); }
            }
            if stats.cap_hit {
                break;
            }
        }
        if !fringe.is_empty() && !stats.cap_hit {
            fringe.sort_by(|a, b| (a.script.len(), &a.script).cmp(&(b.script.len(), &b.script)));
            for chunk in fringe.chunks(8192) {
                let exps: Vec<Expansion> = chunk
                    .par_iter()
                    .map(|r| {
                        let mut e = self.expand(r, true);
                        e.succs.clear();
                        e
                    })
                    .collect();
                for e in exps {
                    stats.fringe_transitions += e.stats.transitions;
                    let _ = absorb(e, &mut stats, &mut found, &mut xval, &mut xval_seen, &mut witnesses);
                }
            }
            stats.fringe_states = fringe.len() as u64;
        }
        Outcome {
            stats,
            found: found.into_values().collect(),
            xval_outputs: xval,
            witnesses,
            sample_scripts: samples,
            runs: all_runs.into_inner(),
        }
    }
}

/// Build a script prefix by opcode *names*: at each step pick the named opcode among the enabled ones
/// (default answers for all value draws). Returns the representative of the reached state.
pub fn scenario(ex: &Explorer, frame: bool, plan: &[Vec<u8>]) -> Result<Rep, String> {
    let p2: Vec<(Vec<u8>, Vec<u8>)> = plan.iter().map(|w| (w.clone(), vec![])).collect();
    scenario_vals(ex, frame, &p2)
}

/// like `scenario`, with raw answer bytes for the value draws of each step (appended after the choice bytes)
pub fn scenario_vals(ex: &Explorer, frame: bool, plan: &[(Vec<u8>, Vec<u8>)]) -> Result<Rep, String> {
    let mut script: Vec<u8> = if ex.base_cfg.proto >= 4 { vec![frame as u8] } else { vec![] };
    let (_c, _r, tr0) = ex.run(&script, 0);
    let enabled = tr0.loop_end.as_ref().map(|x| x.0.clone()).ok_or("no LoopEnd")?;
    script.truncate(tr0.consumed);
    extend_rep(ex, &Rep { script, k: 0, enabled }, plan)
}

/// continue an existing representative by further steps (same conventions as `scenario_vals`)
pub fn extend_rep(ex: &Explorer, from: &Rep, plan: &[(Vec<u8>, Vec<u8>)]) -> Result<Rep, String> {
    let mut script = from.script.clone();
    let mut enabled = from.enabled.clone();
    let k0 = from.k;
    for (k, (wants, vals)) in plan.iter().enumerate() {
        let k = k0 + k;
        // first preference that is enabled
        let (idx, want) = wants
            .iter()
            .find_map(|w| enabled.iter().position(|c| c == w).map(|i| (i, *w)))
            .ok_or_else(|| format!("scenario: none of {:?} enabled at step {k}", wants.iter().map(|w| lexer::name(*w)).collect::<Vec<_>>()))?;
        let base_len = script.len();
        script.extend_from_slice(&script::enc_index(idx as u64, enabled.len() as u64));
        let (_c, _r, mut tr) = ex.run(&script, k + 1);
        if tr.steps.len() != k + 1 || tr.steps.last().and_then(|s| s.chosen) != Some(want) {
            // the selection is not "index of the enabled list": enumerate the answers of the choice draws (two levels)
            script.truncate(base_len);
            let mut found = false;
            let mut queue: std::collections::VecDeque<(Vec<u8>, usize)> = std::collections::VecDeque::new();
            queue.push_back((script.clone(), 0));
            let mut runs = 0;
            while let Some((s, from)) = queue.pop_front() {
                runs += 1;
                if runs > 4096 {
                    break;
                }
                let (_c, _r, t) = ex.run(&s, k + 1);
                let Some(st) = t.steps.last() else { continue };
                if t.steps.len() == k + 1 && st.chosen == Some(want) {
                    script = s;
                    tr = t;
                    found = true;
                    break;
                }
                let cds: Vec<DrawRec> = st.draws.iter().filter(|d| d.is_choice).cloned().collect();
                for (ci, d) in cds.iter().enumerate().skip(from) {
                    let span = match d.method {
                        "choose_index" => d.a,
                        "gen_range" => d.b.saturating_sub(d.a),
                        "gen_bool" => 2,
                        _ => 0,
                    };
                    for v in 0..span.min(512) {
                        let bytes = if d.method == "gen_bool" { vec![v as u8] } else { script::enc_index(v, span) };
                        let mut s2: Vec<u8> = s[..d.off.min(s.len())].to_vec();
                        s2.resize(d.off, 0);
                        s2.extend_from_slice(&bytes);
                        queue.push_back((s2, ci + 1));
                    }
                }
            }
            if !found {
                return Err(format!("scenario: step {k} could not be steered to {}", lexer::name(want)));
            }
        }
        if !vals.is_empty() {
            // value answers follow the choice draws of this step
            let choice_end = tr.steps.last().map(|st| st.draws.iter().filter(|d| d.is_choice).map(|d| d.off + d.width).max().unwrap_or(script.len())).unwrap_or(script.len());
            script.truncate(choice_end.min(script.len()));
            script.resize(choice_end, 0);
            script.extend_from_slice(vals);
            let (_c, _r, tr2) = ex.run(&script, k + 1);
            if tr2.steps.len() != k + 1 || tr2.steps.last().and_then(|s| s.chosen) != Some(want) {
                return Err(format!("scenario: value bytes changed the choice at step {k}"));
            }
            tr = tr2;
        }
        script.resize(tr.consumed.max(script.len().min(tr.consumed)), 0);
        script.truncate(tr.consumed);
        enabled = tr.loop_end.as_ref().map(|x| x.0.clone()).ok_or("no LoopEnd")?;
    }
    Ok(Rep { script, k: k0 + plan.len(), enabled })
}

/// All stacks of exactly `depth` slots over one representative per kind class, built by push macros only (no memo,
/// no aliasing); from every such state (and every shallower one on the way) the operand-consuming opcodes are run
/// once. Complements the closure, whose box bounds the depth: every kind/MARK guard is exercised on every
/// combination of operand classes up to `depth`.
pub fn product_stacks(ex: &Explorer, depth: usize) -> Outcome {
    let p = ex.base_cfg.proto;
    // push macros: (label opcode sequence) each nets +1 slot of a distinct class
    let mut macros: Vec<Vec<Vec<u8>>> = vec![
        vec![vec![b'N']], // scalar
        vec![vec![b'(']], // MARK
        vec![vec![b'V']], // str
        vec![vec![b'c']], // callable
    ];
    if p >= 1 {
        macros.push(vec![vec![b']']]); // list
        macros.push(vec![vec![b')']]); // tuple
        macros.push(vec![vec![b'}']]); // dict
        macros.push(vec![vec![b'c'], vec![b')'], vec![b'R']]); // instance: GLOBAL EMPTY_TUPLE REDUCE
        macros.push(vec![vec![b'B', b'T']]); // bytes-like (BINBYTES, else BINSTRING)
    } else {
        macros.push(vec![vec![b'('], vec![b'l']]); // list
        macros.push(vec![vec![b'('], vec![b't']]); // tuple
        macros.push(vec![vec![b'('], vec![b'd']]); // dict
        macros.push(vec![vec![b'c'], vec![b'('], vec![b't'], vec![b'R']]); // instance
    }
    if p >= 4 {
        macros.push(vec![vec![0x8f]]); // set
    }
    let mut stats = Stats::default();
    let mut found: BTreeMap<String, Found> = BTreeMap::new();
    let (_c, _r, tr0) = ex.run(&if p >= 4 { vec![0u8] } else { vec![] }, 0);
    let Some((en0, _)) = tr0.loop_end.clone() else {
        return Outcome { stats, found: vec![], xval_outputs: vec![], witnesses: BTreeMap::new(), sample_scripts: vec![], runs: vec![] };
    };
    let mut level: Vec<Rep> = vec![Rep { script: if p >= 4 { vec![0u8] } else { vec![] }, k: 0, enabled: en0 }];
    let mut samples = vec![];
    for d in 1..=depth {
        let next: Vec<Rep> = level
            .par_iter()
            .flat_map_iter(|r| {
                macros
                    .iter()
                    .filter_map(|m| {
                        let plan: Vec<(Vec<u8>, Vec<u8>)> = m.iter().map(|w| (w.clone(), vec![])).collect();
                        extend_rep(ex, r, &plan).ok()
                    })
                    .collect::<Vec<_>>()
            })
            .collect();
        // run the consumers from every state of this depth
        let exps: Vec<Expansion> = next.par_iter().map(|r| { let mut e = ex.expand(r, true); e.succs.clear(); e }).collect();
        for e in exps {
            stats.add(&e.stats);
            for f in e.found {
                let key = format!("{}|{}", f.finding.prop, f.finding.class);
                match found.get(&key) {
                    Some(old) if (old.script.len(), &old.script) <= (f.script.len(), &f.script) => {}
                    _ => {
                        found.insert(key, f);
                    }
                }
            }
        }
        stats.states += next.len() as u64;
        if let Some(r) = next.get(next.len() / 3) {
            samples.push((r.script.clone(), r.k));
        }
        stats.levels = d;
        level = next;
    }
    Outcome { stats, found: found.into_values().collect(), xval_outputs: vec![], witnesses: BTreeMap::new(), sample_scripts: samples, runs: vec![] }
}

/// Run-length shapes: stacks `[base] MARK^a N^b MARK^c [GLOBAL] N^d` with the run lengths b, d taken from
/// {0..4, powers of two and their neighbours up to `max_run`}, a <= 3, c <= 2 — a counting abstraction that reaches
/// depths of 70+ slots with ~10^4 shapes. From each shape the operand-consuming opcodes are run once. Catches guards
/// and scans whose behaviour changes with the NUMBER of items above / MARKs below a MARK (thresholds, window sizes).
pub fn runlength_shapes(ex: &Explorer, max_run: usize) -> Outcome {
    let p = ex.base_cfg.proto;
    let mut lens: Vec<usize> = vec![0, 1, 2, 3, 4];
    let mut x = 8;
    while x <= max_run {
        lens.extend([x - 1, x, x + 1]);
        x *= 2;
    }
    lens.sort_unstable();
    lens.dedup();
    let mut bases: Vec<Vec<Vec<u8>>> = vec![vec![], vec![vec![b'N']], vec![vec![b'c']]];
    if p >= 1 {
        bases.push(vec![vec![b']']]);
        bases.push(vec![vec![b'}']]);
    } else {
        bases.push(vec![vec![b'('], vec![b'l']]);
        bases.push(vec![vec![b'('], vec![b'd']]);
    }
    if p >= 4 {
        bases.push(vec![vec![0x8f]]);
    }
    let start = if p >= 4 { vec![0u8] } else { vec![] };
    let (_c, _r, tr0) = ex.run(&start, 0);
    let Some((en0, _)) = tr0.loop_end.clone() else {
        return Outcome { stats: Stats::default(), found: vec![], xval_outputs: vec![], witnesses: BTreeMap::new(), sample_scripts: vec![], runs: vec![] };
    };
    let root = Rep { script: start, k: 0, enabled: en0 };
    let step = |r: &Rep, op: u8, n: usize| -> Option<Rep> {
        if n == 0 {
            return Some(r.clone());
        }
        let plan: Vec<(Vec<u8>, Vec<u8>)> = std::iter::repeat((vec![op], vec![])).take(n).collect();
        extend_rep(ex, r, &plan).ok()
    };
    let nl = lens.len();
    let jobs: Vec<(usize, usize, usize)> = (0..bases.len()).flat_map(|bi| (0..=3usize).flat_map(move |a| (0..nl).map(move |li| (bi, a, li)))).collect();
    let lens_ref = &lens;
    let results: Vec<(Stats, Vec<Found>, u64)> = jobs
        .par_iter()
        .map(|(bi, a, li)| {
            let mut st = Stats::default();
            let mut found: Vec<Found> = vec![];
            let mut shapes = 0u64;
            let plan: Vec<(Vec<u8>, Vec<u8>)> = bases[*bi].iter().map(|w| (w.clone(), vec![])).collect();
            let Ok(r0) = extend_rep(ex, &root, &plan) else { return (st, found, shapes) };
            let Some(r1) = step(&r0, b'(', *a) else { return (st, found, shapes) };
            let Some(r2) = step(&r1, b'N', lens_ref[*li]) else { return (st, found, shapes) };
            for c in 0..=2usize {
                let Some(r3) = step(&r2, b'(', c) else { continue };
                for g in 0..=1usize {
                    let Some(r4) = step(&r3, b'c', g) else { continue };
                    let mut prev = r4.clone();
                    let mut prev_d = 0usize;
                    for &d in lens_ref.iter() {
                        let Some(r5) = step(&prev, b'N', d - prev_d) else { break };
                        prev = r5.clone();
                        prev_d = d;
                        shapes += 1;
                        let mut e = ex.expand(&r5, true);
                        e.succs.clear();
                        st.add(&e.stats);
                        for f in e.found {
                            if !found.iter().any(|x| x.finding.class == f.finding.class) {
                                found.push(f);
                            }
                        }
                    }
                }
            }
            (st, found, shapes)
        })
        .collect();
    let mut stats = Stats::default();
    let mut found: BTreeMap<String, Found> = BTreeMap::new();
    for (st, fs, shapes) in results {
        stats.add(&st);
        stats.states += shapes;
        for f in fs {
            let key = format!("{}|{}", f.finding.prop, f.finding.class);
            match found.get(&key) {
                Some(old) if (old.script.len(), &old.script) <= (f.script.len(), &f.script) => {}
                _ => {
                    found.insert(key, f);
                }
            }
        }
    }
    Outcome { stats, found: found.into_values().collect(), xval_outputs: vec![], witnesses: BTreeMap::new(), sample_scripts: vec![], runs: vec![] }
}
