//! E5: exhaustive enumeration of small input spaces of the entropy adapters (C18) and the mutators (C16, C15).
//! States = distinct (entropy state, arguments) combinations; transitions = calls into the real code.

use crate::lexer;
use crate::refm::Kind;
use crate::report::Report;
use crate::run::{take_panic, Mk};
use arbitrary::Unstructured;
use pickle_fuzzer::mutators::EmissionSnapshot;
use pickle_fuzzer::{EntropySource, GenerationSource, Mutator};
use rand::SeedableRng;
use rand_chacha::ChaCha8Rng;
use rayon::prelude::*;
use serde_json::json;
use std::panic::{catch_unwind, AssertUnwindSafe};

#[derive(Clone, Debug)]
pub enum Ent {
    Bytes(Vec<u8>),
    Seed(u64),
}

impl Ent {
    pub fn describe(&self) -> String {
        match self {
            Ent::Bytes(b) => format!("bytes:{}", lexer::hex(b)),
            Ent::Seed(s) => format!("seed:{s}"),
        }
    }
    pub fn to_json(&self) -> serde_json::Value {
        match self {
            Ent::Bytes(b) => json!({"bytes_hex": lexer::hex(b)}),
            Ent::Seed(s) => json!({"seed": s}),
        }
    }
}

/// run `f` with a fresh source in the given entropy state; Err(panic message) if it unwinds
pub fn with_source<T>(e: &Ent, f: impl FnOnce(&mut GenerationSource) -> T) -> Result<T, String> {
    let _w = crate::watch::enter_light();
    let r = catch_unwind(AssertUnwindSafe(|| match e {
        Ent::Bytes(b) => {
            let mut u = Unstructured::new(b);
            let mut s = GenerationSource::Arbitrary(&mut u);
            f(&mut s)
        }
        Ent::Seed(seed) => {
            let mut rng = ChaCha8Rng::seed_from_u64(*seed);
            let mut s = GenerationSource::Rand(&mut rng);
            f(&mut s)
        }
    }));
    r.map_err(|_| take_panic().unwrap_or_else(|| "panic".into()))
}

/// all byte strings of length <= 2
pub fn short_strings() -> Vec<Vec<u8>> {
    let mut v: Vec<Vec<u8>> = vec![vec![]];
    for a in 0..=255u8 {
        v.push(vec![a]);
    }
    for a in 0..=255u8 {
        for b in 0..=255u8 {
            v.push(vec![a, b]);
        }
    }
    v
}

const EDGE_BYTES: [u8; 8] = [0x00, 0x01, 0x7f, 0x80, 0xfe, 0xff, 0x27, 0x5c];

/// longer strings (3..=16 bytes) built from the edge alphabet: all of length 3, and for the longer
/// lengths every string that is constant except for one or two positions
pub fn long_strings(thorough: bool) -> Vec<Vec<u8>> {
    let mut v = vec![];
    for a in EDGE_BYTES {
        for b in EDGE_BYTES {
            for c in EDGE_BYTES {
                v.push(vec![a, b, c]);
            }
        }
    }
    for len in [4usize, 7, 8, 9, 15, 16] {
        for fill in EDGE_BYTES {
            v.push(vec![fill; len]);
            for i in 0..len {
                for x in EDGE_BYTES {
                    let mut s = vec![fill; len];
                    s[i] = x;
                    v.push(s.clone());
                    if thorough {
                        for j in (i + 1)..len {
                            for y in [0x00u8, 0xff, 0x80] {
                                let mut t = s.clone();
                                t[j] = y;
                                v.push(t);
                            }
                        }
                    }
                }
            }
        }
    }
    v.sort();
    v.dedup();
    v
}

pub const GRID: [usize; 15] =
    [0, 1, 2, 3, 95, 255, 256, 257, 19061, 65535, 65536, 65537, 1 << 32, usize::MAX - 1, usize::MAX];

#[derive(Default)]
struct Tally {
    states: u64,
    calls: u64,
    bad: Vec<(String, String, serde_json::Value)>,
}

impl Tally {
    fn merge(mut self, o: Tally) -> Tally {
        self.states += o.states;
        self.calls += o.calls;
        for b in o.bad {
            if self.bad.len() < 64 && !self.bad.iter().any(|x| x.0 == b.0) {
                self.bad.push(b);
            }
        }
        self
    }
    fn bad(&mut self, class: &str, msg: String, replay: serde_json::Value) {
        if self.bad.len() < 64 && !self.bad.iter().any(|x| x.0 == class) {
            self.bad.push((class.to_string(), msg, replay));
        }
    }
}

// ------------------------------------------------------------------------------------------------ C18

fn c18_one(e: &Ent, t: &mut Tally) {
    t.states += 1;
    let rj = |what: &str, args: serde_json::Value| json!({"kind": "adapter", "entropy": e.to_json(), "call": what, "args": args});
    for &n in GRID.iter() {
        // choose_index
        t.calls += 1;
        match with_source(e, |s| (s.choose_index(n), s.choose_index(n))) {
            Err(p) => t.bad("choose_index:panic", format!("choose_index({n}) panicked on {}: {p}", e.describe()), rj("choose_index", json!([n.to_string()]))),
            Ok((r, _)) => {
                if (n == 0 && r != 0) || (n > 0 && r >= n) {
                    t.bad("choose_index:range", format!("choose_index({n}) = {r} on {}", e.describe()), rj("choose_index", json!([n.to_string()])));
                }
                // same input, same answer
                if let Ok((r2, _)) = with_source(e, |s| (s.choose_index(n), 0)) {
                    if r2 != r {
                        t.bad("choose_index:nondeterministic", format!("choose_index({n}) = {r} then {r2} on {}", e.describe()), rj("choose_index", json!([n.to_string()])));
                    }
                }
            }
        }
        for &m in GRID.iter() {
            t.calls += 1;
            match with_source(e, |s| {
                let first = s.gen_range(n, m);
                // a second draw from whatever state the first left
                let second = s.gen_range(n, m);
                (first, second)
            }) {
                Err(p) => t.bad("gen_range:panic", format!("gen_range({n},{m}) panicked on {}: {p}", e.describe()), rj("gen_range", json!([n.to_string(), m.to_string()]))),
                Ok((r, r2)) => {
                    for x in [r, r2] {
                        let ok = if n >= m { x == n } else { n <= x && x < m };
                        if !ok {
                            t.bad("gen_range:range", format!("gen_range({n},{m}) = {x} on {}", e.describe()), rj("gen_range", json!([n.to_string(), m.to_string()])));
                        }
                    }
                }
            }
        }
    }
    // ascii chars: draw up to 4 in a row
    t.calls += 1;
    match with_source(e, |s| (0..4).map(|_| s.gen_ascii_char()).collect::<Vec<char>>()) {
        Err(p) => t.bad("gen_ascii_char:panic", format!("gen_ascii_char panicked on {}: {p}", e.describe()), rj("gen_ascii_char", json!([]))),
        Ok(cs) => {
            for c in cs {
                if !(' '..='~').contains(&c) {
                    t.bad("gen_ascii_char:not-printable", format!("gen_ascii_char = {:?} on {}", c, e.describe()), rj("gen_ascii_char", json!([])));
                }
            }
        }
    }
    for len in [0usize, 1, 2, 3, 7, 64, 300] {
        t.calls += 1;
        match with_source(e, |s| (s.gen_bytes(len), s.gen_bytes(len))) {
            Err(p) => t.bad("gen_bytes:panic", format!("gen_bytes({len}) panicked on {}: {p}", e.describe()), rj("gen_bytes", json!([len]))),
            Ok((a, b)) => {
                if a.len() != len || b.len() != len {
                    t.bad("gen_bytes:length", format!("gen_bytes({len}) returned {} / {} bytes on {}", a.len(), b.len(), e.describe()), rj("gen_bytes", json!([len])));
                }
            }
        }
    }
    // fixed-width draws must not fail either (10 in a row drains any input)
    t.calls += 1;
    if let Err(p) = with_source(e, |s| {
        for _ in 0..3 {
            let _ = (s.gen_bool(), s.gen_u8(), s.gen_u16(), s.gen_u32(), s.gen_i32(), s.gen_i64(), s.gen_f64());
        }
    }) {
        t.bad("fixed-width:panic", format!("fixed-width draw panicked on {}: {p}", e.describe()), rj("fixed", json!([])));
    }
}

pub fn c18(tier: &str) -> i32 {
    let mut rep = Report::new("C18", tier);
    let thorough = tier == "thorough";
    let mut ents: Vec<Ent> = short_strings().into_iter().map(Ent::Bytes).collect();
    let n_short = ents.len();
    ents.extend(long_strings(thorough).into_iter().map(Ent::Bytes));
    let n_bytes = ents.len();
    let seeds: u64 = if thorough { 20_000 } else { 500 };
    ents.extend((crate::report::sweep_base(seeds)..crate::report::sweep_base(seeds) + seeds).map(Ent::Seed));
    let tally = ents
        .par_iter()
        .fold(Tally::default, |mut t, e| {
            c18_one(e, &mut t);
            t
        })
        .reduce(Tally::default, Tally::merge);
    // thorough: every byte string of length 3 (16.7 M) through choose_index / gen_range on a reduced argument grid
    let mut t3 = Tally::default();
    if thorough {
        let small: [usize; 7] = [1, 2, 3, 95, 256, 257, 65537];
        t3 = (0..=255u8)
            .into_par_iter()
            .fold(Tally::default, |mut t, a| {
                for b in 0..=255u8 {
                    for c in 0..=255u8 {
                        let e = Ent::Bytes(vec![a, b, c]);
                        t.states += 1;
                        for &n in &small {
                            t.calls += 2;
                            match with_source(&e, |s| (s.choose_index(n), s.gen_range(n / 2, n))) {
                                Ok((i, r)) => {
                                    if i >= n || !((n / 2 >= n && r == n / 2) || (n / 2 <= r && r < n)) {
                                        t.bad("len3:range", format!("choose_index({n})={i} / gen_range({},{n})={r} on {}", n / 2, e.describe()), json!({"kind":"adapter","entropy":e.to_json()}));
                                    }
                                }
                                Err(p) => t.bad("len3:panic", format!("panic on {}: {p}", e.describe()), json!({"kind":"adapter","entropy":e.to_json()})),
                            }
                        }
                    }
                }
                t
            })
            .reduce(Tally::default, Tally::merge);
    }
    // exhausted input: the fallback is fixed (the same every time, whatever was consumed before)
    let mut t2 = Tally::default();
    let empty = Ent::Bytes(vec![]);
    let fallback = with_source(&empty, |s| {
        (s.choose_index(7), s.gen_range(3, 9), s.gen_ascii_char(), s.gen_bytes(4), s.gen_bool(), s.gen_u8(), s.gen_u16(), s.gen_u32(), s.gen_i32(), s.gen_i64(), s.gen_f64().to_bits())
    });
    for pre in [vec![], vec![0xffu8], vec![0xff, 0xff, 0xff]] {
        let e = Ent::Bytes(pre.clone());
        let after = with_source(&e, |s| {
            let _ = s.gen_bytes(pre.len()); // drain
            (s.choose_index(7), s.gen_range(3, 9), s.gen_ascii_char(), s.gen_bytes(4), s.gen_bool(), s.gen_u8(), s.gen_u16(), s.gen_u32(), s.gen_i32(), s.gen_i64(), s.gen_f64().to_bits())
        });
        t2.calls += 1;
        if format!("{after:?}") != format!("{fallback:?}") {
            t2.bad("exhausted:fallback-not-fixed", format!("after draining {} the fallback is {after:?}, on empty input {fallback:?}", lexer::hex(&pre)), json!({"kind":"adapter","entropy":e.to_json(),"call":"fallback"}));
        }
    }
    let n_len3 = t3.states;
    let tally = tally.merge(t2).merge(t3);
    rep.set("byte_strings_len_3_exhaustive", json!(n_len3));
    rep.states = tally.states;
    rep.transitions = tally.calls;
    for (c, m, r) in &tally.bad {
        rep.finding_raw(c, m, r.clone());
    }
    rep.set("entropy_states", json!({"byte_strings_len_le_2": n_short, "edge_alphabet_strings_len_3_to_16": n_bytes - n_short, "prng_seeds": seeds}));
    rep.set("argument_grid", json!(GRID.iter().map(|g| g.to_string()).collect::<Vec<_>>()));
    rep.set("fallback_on_empty_input", json!(format!("{fallback:?}")));
    rep.sample(json!({"entropy": "bytes:ff07", "calls": ["choose_index(n) for n in grid", "gen_range(a,b) for all grid pairs (twice in a row)", "4 x gen_ascii_char", "gen_bytes(len) twice", "3 rounds of all fixed-width draws"]}));
    rep.sample(json!({"entropy": "seed:17", "calls": "same"}));
    rep.assumptions = vec![
        "fuzzer-byte inputs are exhaustive for length <= 2; longer inputs come from an 8-symbol edge alphabet (all strings of length 3, near-constant strings up to 16 bytes)".into(),
        "PRNG states are a labelled sweep of seeds 0..N (ChaCha8 state space is not enumerable)".into(),
        "arguments range over the stated grid, not all of usize".into(),
    ];
    rep.finish(true, "every (entropy state, argument) combination of the stated finite sets is executed on the real adapters; states = entropy states, transitions = adapter calls")
}

// ------------------------------------------------------------------------------------------------ C16

fn int_values() -> Vec<i32> {
    let mut v = vec![0i32, 1, -1, i32::MAX, i32::MIN, i32::MAX - 1, i32::MIN + 1, 255, 256, 65535, 65536, 1000, -1000];
    for k in 0..31 {
        let p = 1i32 << k;
        v.extend([p, p.wrapping_sub(1), p.wrapping_add(1), p.wrapping_neg()]);
    }
    v.sort_unstable();
    v.dedup();
    v
}

fn long_values() -> Vec<i64> {
    let mut v = vec![0i64, 1, -1, i64::MAX, i64::MIN, i64::MAX - 1, i64::MIN + 1];
    for k in 0..63 {
        let p = 1i64 << k;
        v.extend([p, p.wrapping_sub(1), p.wrapping_add(1), p.wrapping_neg()]);
    }
    v.sort_unstable();
    v.dedup();
    v
}

fn float_values() -> Vec<f64> {
    vec![0.0, -0.0, 1.0, -1.0, 0.5, f64::MAX, f64::MIN, f64::INFINITY, f64::NEG_INFINITY, f64::NAN, f64::MIN_POSITIVE, 1e300]
}

fn string_values() -> Vec<String> {
    let alpha = ["a", "'", "\\", "é", "𝄞"];
    let mut v = vec![String::new()];
    for a in alpha {
        v.push(a.to_string());
        for b in alpha {
            v.push(format!("{a}{b}"));
        }
    }
    v.push("x".repeat(31));
    v.push("y".repeat(32));
    v.push("z".repeat(64));
    v.push("é".repeat(20));
    v.push("a𝄞b".repeat(10));
    v
}

fn bytes_values() -> Vec<Vec<u8>> {
    let mut v = vec![vec![]];
    for a in [0u8, 0x27, 0x5c, 0x80, 0xff] {
        v.push(vec![a]);
        for b in [0u8, 0x27, 0xff] {
            v.push(vec![a, b]);
        }
    }
    v.push(vec![0x41; 31]);
    v.push(vec![0x00; 32]);
    v.push((0..64u8).collect());
    v
}

fn memo_values() -> Vec<usize> {
    vec![0, 1, 2, 254, 255, 256, 257, 998, 999, 1000, 1001, usize::MAX - 1, usize::MAX]
}

/// entropy states for a mutator call at rate 1.0: the gate draw (8 bytes) followed by every string of
/// length <= 2 (value draws), plus truncated gates, the empty input and PRNG seeds
fn mutator_ents(thorough: bool) -> Vec<Ent> {
    let mut v = vec![];
    let gates: Vec<[u8; 8]> = vec![0.0f64.to_bits().to_le_bytes(), 0.5f64.to_bits().to_le_bytes(), 1.0f64.to_bits().to_le_bytes()];
    for (gi, g) in gates.iter().enumerate() {
        for s in short_strings() {
            if gi > 0 && s.len() == 2 && !thorough {
                continue;
            }
            let mut b = g.to_vec();
            b.extend_from_slice(&s);
            v.push(Ent::Bytes(b));
        }
    }
    // three and four value bytes from the edge alphabet (second/third value draws)
    for a in EDGE_BYTES {
        for b in EDGE_BYTES {
            for c in EDGE_BYTES {
                let mut x = gates[0].to_vec();
                x.extend_from_slice(&[a, b, c]);
                v.push(Ent::Bytes(x.clone()));
                x.extend_from_slice(&[c, a, 0x19, 0x61, 0x7a, 0xff, 0x00, 0x33, 0x10, 0x05]);
                v.push(Ent::Bytes(x));
            }
        }
    }
    if thorough {
        // gate + every 2-byte value string + a third byte from the edge alphabet (third value draws)
        for a in 0..=255u8 {
            for b in 0..=255u8 {
                for c in EDGE_BYTES {
                    let mut x = gates[0].to_vec();
                    x.extend_from_slice(&[a, b, c]);
                    v.push(Ent::Bytes(x));
                }
            }
        }
    }
    for n in 0..8 {
        v.push(Ent::Bytes(vec![0u8; n]));
        v.push(Ent::Bytes(vec![0xffu8; n]));
    }
    let seeds: u64 = if thorough { 5000 } else { 300 };
    v.extend((crate::report::sweep_base(seeds)..crate::report::sweep_base(seeds) + seeds).map(Ent::Seed));
    v
}

fn is_prefix_chars(out: &str, inp: &str) -> bool {
    let o: Vec<char> = out.chars().collect();
    let i: Vec<char> = inp.chars().collect();
    o.len() <= i.len() && o[..] == i[..o.len()]
}

fn c16_mutator(mk: Mk, unsafe_mode: bool, e: &Ent, t: &mut Tally) {
    let m: Box<dyn Mutator> = mk.kind().create(unsafe_mode);
    let name = mk.name();
    let rate = 1.0;
    let rj = |method: &str, val: String| json!({"kind":"mutator","mutator":name,"unsafe":unsafe_mode,"method":method,"value":val,"rate":rate,"entropy":e.to_json()});
    t.states += 1;
    // ---- ints
    for v in int_values() {
        t.calls += 1;
        match with_source(e, |s| m.mutate_int(v, s, rate)) {
            Err(p) => t.bad(&format!("{name}:int:panic"), format!("{name}.mutate_int({v}) panicked on {}: {p}", e.describe()), rj("mutate_int", v.to_string())),
            Ok(None) => {}
            Ok(Some(o)) => {
                let ok = match mk {
                    Mk::Bitflip => (o ^ v).count_ones() == 1,
                    Mk::Boundary => [0, -1, 1, i32::MAX, i32::MIN].contains(&o),
                    Mk::Offbyone => o == v.wrapping_add(1) || o == v.wrapping_sub(1),
                    _ => true, // the statement has no contract for this mutator on integers: not judged
                };
                if !ok {
                    t.bad(&format!("{name}:int:contract"), format!("{name}.mutate_int({v}) = {o} on {}", e.describe()), rj("mutate_int", v.to_string()));
                }
            }
        }
    }
    for v in long_values() {
        t.calls += 1;
        match with_source(e, |s| m.mutate_long(v, s, rate)) {
            Err(p) => t.bad(&format!("{name}:long:panic"), format!("{name}.mutate_long({v}) panicked on {}: {p}", e.describe()), rj("mutate_long", v.to_string())),
            Ok(None) => {}
            Ok(Some(o)) => {
                let ok = match mk {
                    Mk::Bitflip => (o ^ v).count_ones() == 1,
                    Mk::Boundary => [0, -1, 1, i64::MAX, i64::MIN].contains(&o),
                    Mk::Offbyone => o == v.wrapping_add(1) || o == v.wrapping_sub(1),
                    _ => true,
                };
                if !ok {
                    t.bad(&format!("{name}:long:contract"), format!("{name}.mutate_long({v}) = {o} on {}", e.describe()), rj("mutate_long", v.to_string()));
                }
            }
        }
    }
    for v in float_values() {
        t.calls += 1;
        match with_source(e, |s| m.mutate_float(v, s, rate)) {
            Err(p) => t.bad(&format!("{name}:float:panic"), format!("{name}.mutate_float({v}) panicked on {}: {p}", e.describe()), rj("mutate_float", v.to_string())),
            Ok(None) => {}
            Ok(Some(o)) => {
                let list = [0.0, -1.0, 1.0, f64::MAX, f64::MIN, f64::INFINITY, f64::NEG_INFINITY];
                let ok = mk != Mk::Boundary || o.is_nan() || list.iter().any(|x| x.to_bits() == o.to_bits());
                if !ok {
                    t.bad(&format!("{name}:float:contract"), format!("{name}.mutate_float({v}) = {o} on {}", e.describe()), rj("mutate_float", v.to_string()));
                }
            }
        }
    }
    for v in string_values() {
        t.calls += 1;
        match with_source(e, |s| m.mutate_string(v.clone(), s, rate)) {
            Err(p) => t.bad(&format!("{name}:string:panic"), format!("{name}.mutate_string({v:?}) panicked on {}: {p}", e.describe()), rj("mutate_string", v.clone())),
            Ok(None) => {}
            Ok(Some(o)) => {
                let vc: Vec<char> = v.chars().collect();
                let oc: Vec<char> = o.chars().collect();
                let ok = match mk {
                    Mk::Stringlen => {
                        let prefix = is_prefix_chars(&o, &v);
                        let extended = oc.len() > vc.len() && oc.len() - vc.len() >= 1 && oc.len() - vc.len() <= 9 && oc[..vc.len()] == vc[..];
                        let doubled = o == format!("{v}{v}");
                        prefix || extended || doubled
                    }
                    Mk::Character => {
                        oc.len() == vc.len() && {
                            let diffs: Vec<usize> = (0..vc.len()).filter(|i| vc[*i] != oc[*i]).collect();
                            diffs.len() <= 1 && diffs.iter().all(|i| (' '..='~').contains(&oc[*i]))
                        }
                    }
                    _ => true,
                };
                if !ok {
                    t.bad(&format!("{name}:string:contract"), format!("{name}.mutate_string({v:?}) = {o:?} on {}", e.describe()), rj("mutate_string", v.clone()));
                }
            }
        }
    }
    for v in bytes_values() {
        t.calls += 1;
        match with_source(e, |s| m.mutate_bytes(v.clone(), s, rate)) {
            Err(p) => t.bad(&format!("{name}:bytes:panic"), format!("{name}.mutate_bytes({}) panicked on {}: {p}", lexer::hex(&v), e.describe()), rj("mutate_bytes", lexer::hex(&v))),
            Ok(None) => {}
            Ok(Some(o)) => {
                let ok = match mk {
                    Mk::Stringlen => {
                        let prefix = o.len() <= v.len() && o[..] == v[..o.len()];
                        let extended = o.len() > v.len() && o.len() - v.len() <= 9 && o[..v.len()] == v[..];
                        let doubled = o.len() == 2 * v.len() && o[..v.len()] == v[..] && o[v.len()..] == v[..];
                        prefix || extended || doubled
                    }
                    Mk::Character => o.len() == v.len() && (0..v.len()).filter(|i| v[*i] != o[*i]).count() <= 1,
                    _ => true,
                };
                if !ok {
                    t.bad(&format!("{name}:bytes:contract"), format!("{name}.mutate_bytes({}) = {} on {}", lexer::hex(&v), lexer::hex(&o), e.describe()), rj("mutate_bytes", lexer::hex(&v)));
                }
            }
        }
    }
    for v in memo_values() {
        t.calls += 1;
        match with_source(e, |s| m.mutate_memo_index(v, s, rate)) {
            Err(p) => t.bad(&format!("{name}:memo:panic"), format!("{name}.mutate_memo_index({v}) panicked on {}: {p}", e.describe()), rj("mutate_memo_index", v.to_string())),
            Ok(None) => {}
            Ok(Some(o)) => {
                let ok = match mk {
                    Mk::Offbyone => o == v.saturating_add(1) || o == v.saturating_sub(1),
                    Mk::Memoindex => {
                        if unsafe_mode {
                            o < 1000
                        } else {
                            o.abs_diff(v) <= 1
                        }
                    }
                    _ => true,
                };
                if !ok {
                    t.bad(&format!("{name}:memo:contract"), format!("{name}(unsafe={unsafe_mode}).mutate_memo_index({v}) = {o} on {}", e.describe()), rj("mutate_memo_index", v.to_string()));
                }
            }
        }
    }
}

/// a plausible complete encoding for each of the 256 first bytes (so that "just emitted" is realistic)
fn sample_encoding(code: u8) -> Vec<u8> {
    use lexer::ArgKind as A;
    let Some(inf) = lexer::info(code) else { return vec![code] };
    let mut v = vec![code];
    match inf.arg {
        A::None => {}
        A::Uint1 => v.push(7),
        A::Uint2 => v.extend([7, 0]),
        A::Int4 | A::Uint4 => v.extend([7, 0, 0, 0]),
        A::Uint8 | A::Float8 => v.extend([0, 0, 0, 0, 0, 0, 0, 0]),
        A::DecimalnlShort => v.extend(b"12\n"),
        A::DecimalnlLong => v.extend(b"12L\n"),
        A::Floatnl => v.extend(b"1.5\n"),
        A::Long1 => v.extend([1, 5]),
        A::Long4 => v.extend([1, 0, 0, 0, 5]),
        A::Stringnl => v.extend(b"'ab'\n"),
        A::StringnlNoescape | A::Unicodestringnl => v.extend(b"ab\n"),
        A::StringnlNoescapePair => v.extend(b"os\nsystem\n"),
        A::String1 | A::Bytes1 | A::Unicodestring1 => v.extend([2, b'a', b'b']),
        A::String4 | A::Bytes4 | A::Unicodestring4 => v.extend([2, 0, 0, 0, b'a', b'b']),
        A::Bytes8 | A::Bytearray8 | A::Unicodestring8 => v.extend([2, 0, 0, 0, 0, 0, 0, 0, b'a', b'b']),
    }
    v
}

/// kind class of a value-pushing opcode in the terms of the statement (None = not value-pushing)
fn value_class(code: u8) -> Option<&'static str> {
    Some(match code {
        b'I' | b'J' | b'K' | b'M' | b'L' | 0x8a | 0x8b => "int",
        b'F' | b'G' => "float",
        b'S' | b'V' | 0x8c | b'X' | 0x8d => "string",
        b'B' | b'C' | 0x8e | b'T' | b'U' | 0x96 => "bytes",
        b']' | b'l' => "list",
        b')' | b't' | 0x85 | 0x86 | 0x87 => "tuple",
        b'}' | b'd' => "dict",
        0x8f | 0x91 => "set",
        b'N' => "none",
        0x88 | 0x89 => "bool",
        _ => return None,
    })
}

fn c16_typeconfusion(e: &Ent, t: &mut Tally) {
    t.states += 1;
    for unsafe_mode in [false, true] {
        let m: Box<dyn Mutator> = Mk::Typeconfusion.kind().create(unsafe_mode);
        for code in 0..=255u8 {
            for prefix in [vec![], vec![0x80u8, 0x04, b'N']] {
                let emitted = sample_encoding(code);
                let mut output = prefix.clone();
                output.extend_from_slice(&emitted);
                let before = output.clone();
                let snap = EmissionSnapshot {
                    stack_depth: 0,
                    output_len: prefix.len(),
                    memo_size: 0,
                    stack_delta: Vec::new(),
                    output_delta: emitted.clone(),
                    memo_delta: Vec::new(),
                };
                t.calls += 1;
                let rj = json!({"kind":"typeconfusion","unsafe":unsafe_mode,"first_byte":code,"prefix_hex":lexer::hex(&prefix),"entropy":e.to_json()});
                let r = with_source(e, |s| m.post_process(&snap, &mut output, s, 1.0));
                match r {
                    Err(p) => t.bad("typeconfusion:panic", format!("post_process panicked for opcode 0x{code:02x} on {}: {p}", e.describe()), rj),
                    Ok(changed) => {
                        if !unsafe_mode {
                            if changed || output != before {
                                t.bad("typeconfusion:safe-mode-changed", format!("safe mode rewrote opcode 0x{code:02x}"), rj);
                            }
                            continue;
                        }
                        if output == before {
                            continue;
                        }
                        let orig = value_class(code);
                        if orig.is_none() {
                            t.bad("typeconfusion:rewrote-non-value", format!("rewrote non value-pushing opcode 0x{code:02x} ({})", lexer::name(code)), rj);
                            continue;
                        }
                        if output.len() < prefix.len() || output[..prefix.len()] != prefix[..] {
                            t.bad("typeconfusion:prefix-changed", format!("bytes before the emission changed for 0x{code:02x}"), rj);
                            continue;
                        }
                        let repl = &output[prefix.len()..];
                        let one = !repl.is_empty() && matches!(lexer::lex_one(repl, 0), Ok(ref op) if op.end == repl.len());
                        let newc = repl.first().and_then(|c| value_class(*c));
                        if !one || newc.is_none() {
                            t.bad("typeconfusion:not-one-complete-value-opcode", format!("0x{code:02x} replaced by {}", lexer::hex(repl)), rj);
                        } else if newc == orig {
                            t.bad("typeconfusion:same-kind", format!("0x{code:02x} ({:?}) replaced by the same kind: {}", orig, lexer::hex(repl)), rj);
                        }
                    }
                }
            }
        }
    }
    // the same mutator registered more than once (`with_mutators` takes any list): the generator hands ONE snapshot of the
    // emission to every instance in turn, so a later instance works on what an earlier one left. The contract is the same
    // for the chain as a whole: bytes before the emission untouched, one complete value-pushing opcode of another kind
    let chain: Vec<Box<dyn Mutator>> = (0..3).map(|_| Mk::Typeconfusion.kind().create(true)).collect();
    for code in 0..=255u8 {
        let Some(orig) = value_class(code) else { continue };
        for prefix in [vec![], vec![0x80u8, 0x04, b'N']] {
            for n in [2usize, 3] {
                let emitted = sample_encoding(code);
                let mut output = prefix.clone();
                output.extend_from_slice(&emitted);
                let snap = EmissionSnapshot { stack_depth: 0, output_len: prefix.len(), memo_size: 0, stack_delta: Vec::new(), output_delta: emitted.clone(), memo_delta: Vec::new() };
                t.calls += n as u64;
                let rj = json!({"kind":"typeconfusion","unsafe":true,"first_byte":code,"prefix_hex":lexer::hex(&prefix),"entropy":e.to_json(),"instances":n});
                let r = with_source(e, |s| {
                    let mut any = false;
                    for m in chain.iter().take(n) {
                        any |= m.post_process(&snap, &mut output, s, 1.0);
                    }
                    any
                });
                match r {
                    Err(p) => t.bad("typeconfusion:chain:panic", format!("{n} type-confusion instances on one emission panicked for opcode 0x{code:02x} on {}: {p}", e.describe()), rj),
                    Ok(false) => {}
                    Ok(true) => {
                        if output.len() < prefix.len() || output[..prefix.len()] != prefix[..] {
                            t.bad("typeconfusion:chain:prefix-changed", format!("{n} instances: bytes before the emission changed for 0x{code:02x}: {}", lexer::hex(&output)), rj);
                            continue;
                        }
                        let repl = &output[prefix.len()..];
                        let one = !repl.is_empty() && matches!(lexer::lex_one(repl, 0), Ok(ref op) if op.end == repl.len());
                        let newc = repl.first().and_then(|c| value_class(*c));
                        if !one || newc.is_none() {
                            t.bad("typeconfusion:chain:not-one-complete-value-opcode", format!("{n} instances: 0x{code:02x} replaced by {}", lexer::hex(repl)), rj);
                        } else if newc == Some(orig) {
                            t.bad("typeconfusion:chain:same-kind", format!("{n} instances: 0x{code:02x} ({orig}) ends as the same kind: {}", lexer::hex(repl)), rj);
                        }
                    }
                }
            }
        }
    }
    let _ = Kind::Any;
}

pub fn c16(tier: &str) -> i32 {
    let mut rep = Report::new("C16", tier);
    let thorough = tier == "thorough";
    let ents = mutator_ents(thorough);
    let mut jobs: Vec<(Mk, bool)> = vec![];
    for mk in Mk::ALL {
        if mk == Mk::Typeconfusion {
            continue;
        }
        jobs.push((mk, false));
        if mk == Mk::Memoindex {
            jobs.push((mk, true));
        }
    }
    let mut total = Tally::default();
    for (mk, uns) in &jobs {
        let t = ents
            .par_iter()
            .fold(Tally::default, |mut t, e| {
                c16_mutator(*mk, *uns, e, &mut t);
                t
            })
            .reduce(Tally::default, Tally::merge);
        rep.set(&format!("calls_{}{}", mk.name(), if *uns { "_unsafe" } else { "" }), json!(t.calls));
        total = total.merge(t);
    }
    // type confusion: entropy = gate + wrong-type index + value bytes
    let tc_ents: Vec<Ent> = {
        let mut v = vec![];
        for g in [0.0f64, 1.0, 2.0, f64::NAN] {
            for idx in 0..=16u8 {
                for tail in [vec![], vec![0u8; 8], vec![0xffu8; 8], vec![1u8]] {
                    let mut b = g.to_bits().to_le_bytes().to_vec();
                    b.push(idx);
                    b.extend_from_slice(&tail);
                    v.push(Ent::Bytes(b));
                }
            }
        }
        v.push(Ent::Bytes(vec![]));
        v.extend((0..if thorough { 2000 } else { 100 }).map(Ent::Seed));
        v
    };
    let t = tc_ents
        .par_iter()
        .fold(Tally::default, |mut t, e| {
            c16_typeconfusion(e, &mut t);
            t
        })
        .reduce(Tally::default, Tally::merge);
    rep.set("calls_typeconfusion", json!(t.calls));
    total = total.merge(t);
    rep.states = total.states;
    rep.transitions = total.calls;
    for (c, m, r) in &total.bad {
        rep.finding_raw(c, m, r.clone());
    }
    rep.set("entropy_states_per_mutator", json!(ents.len()));
    rep.set("values", json!({"i32": int_values().len(), "i64": long_values().len(), "f64": float_values().len(), "strings": string_values().len(), "byte_strings": bytes_values().len(), "memo_indices": memo_values().len()}));
    rep.sample(json!({"mutator":"bitflip","call":"mutate_int(65535, bytes:0000000000000000 1f, rate 1.0)","oracle":"exactly one bit differs"}));
    rep.sample(json!({"mutator":"typeconfusion(unsafe)","call":"post_process on 'K\\x07' with gate 0.0 and wrong-type index 0..16","oracle":"one complete value-pushing opcode of another kind"}));
    rep.assumptions = vec![
        "entropy states: gate draw in {0.0,0.5,1.0} followed by every byte string of length <= 2, edge-alphabet continuations, truncated/empty inputs, and a labelled sweep of PRNG seeds".into(),
        "values: boundary-exhaustive lists (all powers of two +-1, extremes); not all 2^32 / 2^64 values".into(),
    ];
    rep.finish(true, "every (mutator, method, value, entropy state) combination of the stated finite sets is executed; states = (mutator, entropy state), transitions = mutator calls")
}

// ------------------------------------------------------------------------------------------------ C15 (unit part)

/// which value kinds a mutator is documented to handle (MutatorKind docs / README), not read from the code
pub fn applicable(mk: Mk, kind: &str, unsafe_mode: bool, empty: bool) -> bool {
    match (mk, kind) {
        (Mk::Bitflip, "int" | "long") => true,
        (Mk::Boundary, "int" | "long" | "float") => true,
        (Mk::Offbyone, "int" | "long" | "memo") => true,
        (Mk::Stringlen, "string" | "bytes") => true,
        (Mk::Character, "string" | "bytes") => !empty,
        (Mk::Memoindex, "memo") => true,
        (Mk::Typeconfusion, "post") => unsafe_mode,
        _ => false,
    }
}

fn gate_ents(thorough: bool) -> Vec<Ent> {
    let mut v = vec![Ent::Bytes(vec![])];
    for g in crate::script::F64_ALPHABET {
        for tail in [vec![], vec![0u8; 12], vec![0xffu8; 12], vec![1, 2, 3, 4, 5, 6, 7, 8, 9]] {
            let mut b = g.to_bits().to_le_bytes().to_vec();
            b.extend_from_slice(&tail);
            v.push(Ent::Bytes(b));
        }
    }
    for n in 1..8 {
        v.push(Ent::Bytes(vec![0xff; n]));
        v.push(Ent::Bytes(vec![0x00; n]));
    }
    v.extend((0..if thorough { 20_000 } else { 2_000 }).map(Ent::Seed));
    v
}

fn c15_unit_one(mk: Mk, unsafe_mode: bool, e: &Ent, t: &mut Tally) {
    let m: Box<dyn Mutator> = mk.kind().create(unsafe_mode);
    let name = mk.name();
    t.states += 1;
    for rate in [0.0f64, 1.0] {
        let mut judge = |kind: &str, empty: bool, fired: Result<bool, String>, val: String, t: &mut Tally| {
            t.calls += 1;
            let rj = json!({"kind":"mutator","mutator":name,"unsafe":unsafe_mode,"method":kind,"value":val,"rate":rate,"entropy":e.to_json()});
            match fired {
                Err(p) => t.bad(&format!("{name}:{kind}:panic"), format!("{name} {kind} panicked at rate {rate} on {}: {p}", e.describe()), rj),
                Ok(f) => {
                    if rate == 0.0 && f {
                        t.bad(&format!("rate0-fired:{name}:{kind}"), format!("{name} mutated a {kind} value at rate 0.0 on {}", e.describe()), rj);
                    } else if rate == 1.0 && !f && applicable(mk, kind, unsafe_mode, empty) {
                        t.bad(&format!("rate1-declined:{name}:{kind}"), format!("{name} did not mutate a {kind} value at rate 1.0 on {}", e.describe()), rj);
                    }
                }
            }
        };
        for v in [0i32, 7, -1, i32::MAX] {
            judge("int", false, with_source(e, |s| m.mutate_int(v, s, rate).is_some()), v.to_string(), t);
        }
        for v in [0i64, -9, i64::MIN] {
            judge("long", false, with_source(e, |s| m.mutate_long(v, s, rate).is_some()), v.to_string(), t);
        }
        for v in [0.0f64, 2.5, f64::NAN] {
            judge("float", false, with_source(e, |s| m.mutate_float(v, s, rate).is_some()), v.to_string(), t);
        }
        for v in ["", "a", "héllo wörld", "'quoted\\"] {
            judge("string", v.is_empty(), with_source(e, |s| m.mutate_string(v.to_string(), s, rate).is_some()), v.to_string(), t);
        }
        for v in [vec![], vec![0u8], vec![1, 2, 3, 0xff]] {
            judge("bytes", v.is_empty(), with_source(e, |s| m.mutate_bytes(v.clone(), s, rate).is_some()), lexer::hex(&v), t);
        }
        for v in [0usize, 5, 255, usize::MAX] {
            judge("memo", false, with_source(e, |s| m.mutate_memo_index(v, s, rate).is_some()), v.to_string(), t);
        }
        // post_process on a freshly emitted BININT1
        let emitted = vec![b'K', 7];
        let snap = EmissionSnapshot { stack_depth: 0, output_len: 2, memo_size: 0, stack_delta: Vec::new(), output_delta: emitted.clone(), memo_delta: Vec::new() };
        let mut output = vec![0x80, 4];
        output.extend_from_slice(&emitted);
        let before = output.clone();
        let r = with_source(e, |s| m.post_process(&snap, &mut output, s, rate));
        let changed = r.map(|ret| ret || output != before);
        judge("post", false, changed, "K\\x07".into(), t);
    }
}

pub fn c15_unit(rep: &mut Report, thorough: bool) {
    let ents = gate_ents(thorough);
    let mut jobs: Vec<(Mk, bool)> = vec![];
    for mk in Mk::ALL {
        jobs.push((mk, false));
        if matches!(mk, Mk::Memoindex | Mk::Typeconfusion) {
            jobs.push((mk, true));
        }
    }
    let mut total = Tally::default();
    for (mk, uns) in &jobs {
        let t = ents
            .par_iter()
            .fold(Tally::default, |mut t, e| {
                c15_unit_one(*mk, *uns, e, &mut t);
                t
            })
            .reduce(Tally::default, Tally::merge);
        total = total.merge(t);
    }
    rep.states += total.states;
    rep.transitions += total.calls;
    for (c, m, r) in &total.bad {
        rep.finding_raw(c, m, r.clone());
    }
    rep.set("unit_gate_entropy_states", json!(ents.len()));
    rep.set("unit_calls", json!(total.calls));
}

// ------------------------------------------------------------------------------------------------ replays

fn ent_from_json(v: &serde_json::Value) -> Ent {
    match v["bytes_hex"].as_str() {
        Some(h) => Ent::Bytes(lexer::unhex(h)),
        None => Ent::Seed(v["seed"].as_u64().unwrap_or(0)),
    }
}

/// re-execute a unit-level replay file (kinds "mutator", "adapter", "typeconfusion")
pub fn replay(v: &serde_json::Value) -> i32 {
    let e = ent_from_json(&v["entropy"]);
    let prop = v["property"].as_str().unwrap_or("");
    let mut t = Tally::default();
    println!("entropy state: {}", e.describe());
    match v["kind"].as_str() {
        Some("adapter") => c18_one(&e, &mut t),
        Some("typeconfusion") => c16_typeconfusion(&e, &mut t),
        Some("mutator") => {
            let Some(mk) = Mk::from_name(v["mutator"].as_str().unwrap_or("")) else { return 2 };
            let uns = v["unsafe"].as_bool().unwrap_or(false);
            println!("mutator: {} (unsafe={uns}), method {}, value {}, rate {}", mk.name(), v["method"], v["value"], v["rate"]);
            if prop == "C15" {
                c15_unit_one(mk, uns, &e, &mut t);
            } else {
                c16_mutator(mk, uns, &e, &mut t);
            }
        }
        _ => return 2,
    }
    for (c, m, _) in &t.bad {
        println!("FINDING {prop} {c}: {m}");
    }
    println!("{} calls re-executed, {} findings", t.calls, t.bad.len());
    (!t.bad.is_empty()) as i32
}
