//! E2: histories of calls on one generator (C08). Differential oracle: the result of every generating call
//! equals the result of the same call on a fresh, equally configured generator.

use crate::lexer;
use crate::report::Report;
use crate::run::{run_on, Cfg, Entropy, Mk};
use rayon::prelude::*;
use serde_json::json;

#[derive(Clone, Debug, PartialEq)]
pub enum Call {
    Bytes(Vec<u8>),
    Seeded,
    Reset,
    /// assign the public fields min_opcodes / max_opcodes (what the Python set_opcode_range does)
    SetRange(usize, usize),
    /// assign the public fields allow_ext_opcodes / allow_buffer_opcodes on the live generator
    SetFlags(bool, bool),
}

impl Call {
    pub fn describe(&self) -> String {
        match self {
            Call::Bytes(b) => format!("generate_from_arbitrary({})", lexer::hex(b)),
            Call::Seeded => "generate()".into(),
            Call::Reset => "reset()".into(),
            Call::SetRange(a, b) => format!("min_opcodes={a}; max_opcodes={b}"),
            Call::SetFlags(e, b) => format!("allow_ext_opcodes={e}; allow_buffer_opcodes={b}"),
        }
    }
    pub fn to_json(&self) -> serde_json::Value {
        match self {
            Call::Bytes(b) => json!({"call": "generate_from_arbitrary", "bytes_hex": lexer::hex(b)}),
            Call::Seeded => json!({"call": "generate"}),
            Call::Reset => json!({"call": "reset"}),
            Call::SetRange(a, b) => json!({"call": "set_range", "min": a, "max": b}),
            Call::SetFlags(e, b) => json!({"call": "set_flags", "ext": e, "buffer": b}),
        }
    }
    pub fn from_json(v: &serde_json::Value) -> Call {
        match v["call"].as_str() {
            Some("generate_from_arbitrary") => Call::Bytes(lexer::unhex(v["bytes_hex"].as_str().unwrap_or(""))),
            Some("generate") => Call::Seeded,
            Some("set_range") => Call::SetRange(v["min"].as_u64().unwrap_or(0) as usize, v["max"].as_u64().unwrap_or(0) as usize),
            Some("set_flags") => Call::SetFlags(v["ext"].as_bool().unwrap_or(false), v["buffer"].as_bool().unwrap_or(false)),
            _ => Call::Reset,
        }
    }
}

/// run one history on one generator; returns per generating call (index, result)
pub fn run_history(cfg: &Cfg, seed: u64, h: &[Call]) -> Vec<(usize, Result<Vec<u8>, String>)> {
    let mut g = cfg.build().with_seed(seed);
    let mut out = vec![];
    for (i, c) in h.iter().enumerate() {
        match c {
            Call::Reset => g.reset(),
            Call::SetRange(a, b) => {
                g.min_opcodes = *a;
                g.max_opcodes = *b;
            }
            Call::SetFlags(e, b) => {
                g.allow_ext_opcodes = *e;
                g.allow_buffer_opcodes = *b;
            }
            Call::Bytes(b) => {
                let _w = crate::watch::enter(cfg, b, None);
                let r = run_on(&mut g, Entropy::Bytes(b), false, false);
                out.push((i, if let Some(p) = r.panic { Err(format!("panic: {p}")) } else { r.out }));
            }
            Call::Seeded => {
                let _w = crate::watch::enter(cfg, &[], Some(seed));
                let r = run_on(&mut g, Entropy::Seeded, false, false);
                out.push((i, if let Some(p) = r.panic { Err(format!("panic: {p}")) } else { r.out }));
            }
        }
    }
    out
}

pub fn fresh(cfg: &Cfg, seed: u64, c: &Call) -> Result<Vec<u8>, String> {
    run_history(cfg, seed, std::slice::from_ref(c)).pop().map(|x| x.1).unwrap_or(Err("no call".into()))
}

/// the configuration in force at call `i` of history `h` (the last SetRange before it wins)
pub fn cfg_at(cfg: &Cfg, h: &[Call], i: usize) -> Cfg {
    let mut c = cfg.clone();
    for x in &h[..i] {
        if let Call::SetRange(a, b) = x {
            c.min = *a;
            c.max = *b;
        }
        if let Call::SetFlags(e, b) = x {
            c.ext = *e;
            c.buffer = *b;
        }
    }
    c
}

fn alphabet(p: u8, thorough: bool) -> Vec<Call> {
    // scripts are interpreted under the range of the configuration; these leave different residues:
    let coin: Vec<u8> = if p >= 4 { vec![1] } else { vec![] };
    let mut v = vec![
        Call::Bytes(vec![]),
        // many 0xff bytes: high indices -> late opcodes of the table, deep stacks, marks and memo entries left over
        Call::Bytes([coin.clone(), vec![0xff; 40]].concat()),
        Call::Bytes([coin.clone(), (1..=60u8).collect::<Vec<u8>>()].concat()),
        Call::Bytes([coin.clone(), vec![0x06, 0x03, 0x0d, 0x00, 0x00, 0x09, 0x06, 0x21, 0x07]].concat()),
        Call::Seeded,
        Call::Reset,
    ];
    if thorough {
        v.push(Call::Bytes((0..200u8).rev().collect()));
        v.push(Call::Bytes(vec![0x80; 33]));
    }
    v
}

pub fn c08(tier: &str) -> i32 {
    let quick = tier == "quick";
    let mut rep = Report::new("C08", tier);
    let maxlen = if quick { 3 } else { 4 };
    let mut jobs: Vec<(Cfg, u64, Vec<Call>)> = vec![];
    let mut n_hist = 0u64;
    for p in 0..=5u8 {
        let alpha = alphabet(p, !quick);
        // all histories of length 1..=maxlen over the alphabet that end in a generating call
        let mut hs: Vec<Vec<Call>> = vec![vec![]];
        let mut all: Vec<Vec<Call>> = vec![];
        for _ in 0..maxlen {
            let mut next = vec![];
            for h in &hs {
                for c in &alpha {
                    let mut h2 = h.clone();
                    h2.push(c.clone());
                    next.push(h2);
                }
            }
            all.extend(next.iter().filter(|h| h.last() != Some(&Call::Reset)).cloned());
            hs = next;
        }
        let cfgs: Vec<Cfg> = {
            let mut v = vec![
                Cfg::new(p).range(4, 9).flags(true, true),
                Cfg::new(p).range(0, 0),
                Cfg::new(p), // default 60..300
                Cfg::new(p).range(4, 9).flags(true, true).muts(&Mk::ALL, 0.5, false),
                Cfg::new(p).range(4, 9).flags(true, true).muts(&Mk::ALL, 0.5, true),
            ];
            if !quick {
                v.push(Cfg::new(p).range(7, 3));
                v.push(Cfg::new(p).muts(&Mk::ALL, 1.0, true));
            }
            v
        };
        for cfg in cfgs {
            for h in &all {
                if cfg.min >= 60 && h.len() > 2 && quick {
                    continue; // default-size pickles: pairs only in quick
                }
                jobs.push((cfg.clone(), 42 + p as u64, h.clone()));
                n_hist += 1;
            }
        }
    }
    // size classes: a large earlier result (hundreds of KiB) must not influence a later small one
    for p in 0..=5u8 {
        let big = if quick { 14_000 } else { 30_000 };
        for cfg in [Cfg::new(p), Cfg::new(p).flags(true, true).muts(&Mk::ALL, 0.5, true)] {
            if quick && !cfg.mutators.is_empty() && p % 2 == 1 {
                continue;
            }
            let small_in = Call::Bytes(vec![0x07, 0x21, 0x03, 0x09]);
            for h in [
                vec![Call::SetRange(big, big), Call::Seeded, Call::SetRange(3, 6), Call::Seeded],
                vec![Call::SetRange(big, big), Call::Seeded, Call::SetRange(3, 6), Call::Reset, small_in.clone()],
                vec![Call::SetRange(2, 2), small_in.clone(), Call::SetRange(big / 2, big / 2), Call::Bytes(vec![0xff; 64]), Call::SetRange(2, 2), small_in.clone(), Call::Seeded],
            ] {
                jobs.push((cfg.clone(), 5 + p as u64, h));
                n_hist += 1;
            }
        }
    }
    // reconfiguration between calls: the opt-in flags are public fields; a later call obeys the flags in force then
    for (cfg, seed, h) in flag_flip_histories(quick) {
        jobs.push((cfg, seed, h));
        n_hist += 1;
    }
    let results: Vec<(u64, Vec<(String, String, serde_json::Value)>)> = jobs
        .par_iter()
        .map(|(cfg, seed, h)| {
            let mut bad = vec![];
            let got = run_history(cfg, *seed, h);
            let mut calls = 0u64;
            for (i, r) in &got {
                calls += 1;
                let want = fresh(&cfg_at(cfg, h, *i), *seed, &h[*i]);
                if *r != want {
                    let what = match (&r, &want) {
                        (Ok(a), Ok(b)) if a.len() > b.len() && a.ends_with(b) => "previous-output-prepended",
                        (Ok(a), Ok(b)) if a.len() > b.len() && a.starts_with(b) => "bytes-appended",
                        (Ok(_), Ok(_)) => "different-bytes",
                        (Err(_), _) => "error-on-reuse",
                        _ => "fresh-call-failed",
                    };
                    let prior_reset = h[..*i].iter().rev().find(|c| !matches!(c, Call::SetRange(..))) == Some(&Call::Reset);
                    let after_big = h[..*i].iter().any(|c| matches!(c, Call::SetRange(a, _) if *a >= 1000));
                    bad.push((
                        format!("{what}:{}{}:{}", if prior_reset { "after-reset" } else { "no-reset" }, if after_big { ":after-large-output" } else { "" }, match h[*i] { Call::Seeded => "generate", _ => "generate_from_arbitrary" }),
                        format!(
                            "{}: call #{i} {} returned {} bytes, a fresh generator returns {} bytes",
                            cfg.describe(),
                            h[*i].describe(),
                            r.as_ref().map(|b| b.len()).unwrap_or(0),
                            want.as_ref().map(|b| b.len()).unwrap_or(0)
                        ),
                        json!({"kind": "history", "config": cfg.to_json(), "seed": seed, "calls": h.iter().map(|c| c.to_json()).collect::<Vec<_>>(), "failing_call": i}),
                    ));
                    break;
                }
            }
            (calls, bad)
        })
        .collect();
    let mut calls = 0u64;
    for (c, bad) in results {
        calls += c;
        for (class, msg, rj) in bad {
            rep.finding_raw(&class, &msg, rj);
        }
    }
    rep.states = n_hist;
    rep.transitions = calls;
    rep.set("histories", json!(n_hist));
    rep.set("max_history_length", json!(maxlen));
    rep.set("generating_calls_compared", json!(calls));
    rep.sample(json!({"history": ["generate_from_arbitrary(ff x40)", "generate()", "generate_from_arbitrary()"], "oracle": "each result equals that of the same call on a fresh generator"}));
    rep.assumptions = vec![
        "call alphabet: 4 (6) fuzzer inputs leaving different residues (marks, memo entries, FRAME, deep stack), seeded generate(), reset(); all histories up to the stated length".into(),
        "differential oracle only: no expected bytes are hand-written".into(),
    ];
    rep.finish(true, "all call histories up to the stated length over the stated alphabet, per protocol and configuration; states = histories, transitions = generating calls compared")
}

/// one generator, flags (from) -> generate -> flags (to) -> generate, for every ordered pair of flag settings
pub fn flag_flip_histories(quick: bool) -> Vec<(Cfg, u64, Vec<Call>)> {
    let mut v = vec![];
    let flags = [(false, false), (true, false), (false, true), (true, true)];
    for p in 2..=5u8 {
        for from in flags {
            for to in flags {
                if from == to {
                    continue;
                }
                let seeds: Vec<u64> = if quick { vec![3] } else { vec![3, 4, 5, 6] };
                for sd in seeds {
                    let coin: Vec<u8> = if p >= 4 { vec![1] } else { vec![] };
                    let bytes = Call::Bytes([coin, (0..200u8).map(|i| i.wrapping_mul(37).wrapping_add(11)).collect::<Vec<u8>>()].concat());
                    v.push((Cfg::new(p).flags(from.0, from.1), sd, vec![Call::Seeded, Call::SetFlags(to.0, to.1), Call::Seeded]));
                    v.push((Cfg::new(p).flags(from.0, from.1), sd, vec![bytes.clone(), Call::SetFlags(to.0, to.1), Call::Reset, bytes.clone()]));
                    v.push((Cfg::new(p).flags(from.0, from.1).muts(&Mk::ALL, 0.5, true), sd, vec![Call::Seeded, Call::SetFlags(to.0, to.1), Call::Seeded, Call::SetFlags(from.0, from.1), Call::Seeded]));
                }
            }
        }
    }
    v
}

/// C10 on reconfigured generators: every output of the flag-flip histories is decoded and EXT* / buffer opcodes are
/// reported when the flag in force at that call is off
pub fn c10_flag_histories(rep: &mut Report, quick: bool) {
    let hs = flag_flip_histories(quick);
    let res: Vec<Vec<(String, String, serde_json::Value)>> = hs
        .par_iter()
        .map(|(cfg, seed, h)| {
            let mut bad = vec![];
            for (i, r) in run_history(cfg, *seed, h) {
                let c = cfg_at(cfg, h, i);
                let Ok(b) = r else { continue };
                let Ok((ops, _)) = lexer::genops(&b) else { continue };
                for op in &ops {
                    let ext = matches!(op.code, 0x82 | 0x83 | 0x84);
                    let buf = matches!(op.code, 0x97 | 0x98);
                    if (ext && !c.ext) || (buf && !c.buffer) {
                        bad.push((
                            format!("{}-without-flag:{}:after-flag-change", if ext { "ext" } else { "buffer" }, lexer::name(op.code)),
                            format!("{}: call #{i} of a generator whose flags were changed between calls emitted {} at byte {} although the flag in force is off", c.describe(), lexer::name(op.code), op.pos),
                            json!({"kind": "history", "config": cfg.to_json(), "seed": seed, "calls": h.iter().map(|c| c.to_json()).collect::<Vec<_>>(), "failing_call": i}),
                        ));
                        break;
                    }
                }
            }
            bad
        })
        .collect();
    let mut calls = 0u64;
    for (x, (_, _, h)) in res.into_iter().zip(hs.iter()) {
        calls += h.iter().filter(|c| matches!(c, Call::Seeded | Call::Bytes(_))).count() as u64;
        for (c, m, r) in x {
            rep.finding_raw(&c, &m, r);
        }
    }
    rep.transitions += calls;
    rep.set("flag_change_histories", json!({"histories": hs.len(), "generating_calls": calls, "note": "one generator: flags A, generate, flags B, generate (all ordered pairs of the four flag settings, protocols 2..5, seeded / fuzzer bytes / all mutators unsafe)"}));
}

pub fn replay(v: &serde_json::Value) -> i32 {
    let cfg = Cfg::from_json(&v["config"]);
    let seed = v["seed"].as_u64().unwrap_or(0);
    let h: Vec<Call> = v["calls"].as_array().map(|a| a.iter().map(Call::from_json).collect()).unwrap_or_default();
    println!("config: {} seed {seed}", cfg.describe());
    let got = run_history(&cfg, seed, &h);
    let mut bad = 0;
    for (i, r) in got {
        let want = fresh(&cfg_at(&cfg, &h, i), seed, &h[i]);
        let same = r == want;
        println!("call #{i} {}: {} bytes; fresh generator: {} bytes; equal={same}", h[i].describe(), r.as_ref().map(|b| b.len()).unwrap_or(0), want.as_ref().map(|b| b.len()).unwrap_or(0));
        if !same {
            bad += 1;
            if let (Ok(a), Ok(b)) = (&r, &want) {
                println!("  reused: {}\n  fresh:  {}", lexer::hex(&a[..a.len().min(64)]), lexer::hex(&b[..b.len().min(64)]));
            }
        }
    }
    if bad > 0 {
        1
    } else {
        0
    }
}
