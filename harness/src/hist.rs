//! E2: histories of calls on one generator (C08). Differential oracle: the result of every generating call
//! equals the result of the same call on a fresh, equally configured generator.

use crate::lexer;
use crate::report::Report;
use crate::run::{run_on, Cfg, Entropy, Mk};
use rayon::prelude::*;
use serde_json::json;

#[derive(Clone, Debug, PartialEq)]
pub enum Call {
    Bytes(Vec<u8>),
    Seeded,
    Reset,
    /// assign the public fields min_opcodes / max_opcodes (what the Python set_opcode_range does)
    SetRange(usize, usize),
}

impl Call {
    pub fn describe(&self) -> String {
        match self {
            Call::Bytes(b) => format!("generate_from_arbitrary({})", lexer::hex(b)),
            Call::Seeded => "generate()".into(),
            Call::Reset => "reset()".into(),
            Call::SetRange(a, b) => format!("min_opcodes={a}; max_opcodes={b}"),
        }
    }
    pub fn to_json(&self) -> serde_json::Value {
        match self {
            Call::Bytes(b) => json!({"call": "generate_from_arbitrary", "bytes_hex": lexer::hex(b)}),
            Call::Seeded => json!({"call": "generate"}),
            Call::Reset => json!({"call": "reset"}),
            Call::SetRange(a, b) => json!({"call": "set_range", "min": a, "max": b}),
        }
    }
    pub fn from_json(v: &serde_json::Value) -> Call {
        match v["call"].as_str() {
            Some("generate_from_arbitrary") => Call::Bytes(lexer::unhex(v["bytes_hex"].as_str().unwrap_or(""))),
            Some("generate") => Call::Seeded,
            Some("set_range") => Call::SetRange(v["min"].as_u64().unwrap_or(0) as usize, v["max"].as_u64().unwrap_or(0) as usize),
            _ => Call::Reset,
        }
    }
}

/// run one history on one generator; returns per generating call (index, result)
pub fn run_history(cfg: &Cfg, seed: u64, h: &[Call]) -> Vec<(usize, Result<Vec<u8>, String>)> {
    let mut g = cfg.build().with_seed(seed);
    let mut out = vec![];
    for (i, c) in h.iter().enumerate() {
        match c {
            Call::Reset => g.reset(),
            Call::SetRange(a, b) => {
                g.min_opcodes = *a;
                g.max_opcodes = *b;
            }
            Call::Bytes(b) => {
                let _w = crate::watch::enter(cfg, b, None);
                let r = run_on(&mut g, Entropy::Bytes(b), false, false);
                out.push((i, if let Some(p) = r.panic { Err(format!("panic: {p}")) } else { r.out }));
            }
            Call::Seeded => {
                let _w = crate::watch::enter(cfg, &[], Some(seed));
                let r = run_on(&mut g, Entropy::Seeded, false, false);
                out.push((i, if let Some(p) = r.panic { Err(format!("panic: {p}")) } else { r.out }));
            }
        }
    }
    out
}

pub fn fresh(cfg: &Cfg, seed: u64, c: &Call) -> Result<Vec<u8>, String> {
    run_history(cfg, seed, std::slice::from_ref(c)).pop().map(|x| x.1).unwrap_or(Err("no call".into()))
}

/// the configuration in force at call `i` of history `h` (the last SetRange before it wins)
pub fn cfg_at(cfg: &Cfg, h: &[Call], i: usize) -> Cfg {
    let mut c = cfg.clone();
    for x in &h[..i] {
        if let Call::SetRange(a, b) = x {
            c.min = *a;
            c.max = *b;
        }
    }
    c
}

fn alphabet(p: u8, thorough: bool) -> Vec<Call> {
    // scripts are interpreted under the range of the configuration; these leave different residues:
    let coin: Vec<u8> = if p >= 4 { vec![1] } else { vec![] };
    let mut v = vec![
        Call::Bytes(vec![]),
        // many 0xff bytes: high indices -> late opcodes of the table, deep stacks, marks and memo entries left over
        Call::Bytes([coin.clone(), vec![0xff; 40]].concat()),
        Call::Bytes([coin.clone(), (1..=60u8).collect::<Vec<u8>>()].concat()),
        Call::Bytes([coin.clone(), vec![0x06, 0x03, 0x0d, 0x00, 0x00, 0x09, 0x06, 0x21, 0x07]].concat()),
        Call::Seeded,
        Call::Reset,
    ];
    if thorough {
        v.push(Call::Bytes((0..200u8).rev().collect()));
        v.push(Call::Bytes(vec![0x80; 33]));
    }
    v
}

pub fn c08(tier: &str) -> i32 {
    let quick = tier == "quick";
    let mut rep = Report::new("C08", tier);
    let maxlen = if quick { 3 } else { 4 };
    let mut jobs: Vec<(Cfg, u64, Vec<Call>)> = vec![];
    let mut n_hist = 0u64;
    for p in 0..=5u8 {
        let alpha = alphabet(p, !quick);
        // all histories of length 1..=maxlen over the alphabet that end in a generating call
        let mut hs: Vec<Vec<Call>> = vec![vec![]];
        let mut all: Vec<Vec<Call>> = vec![];
        for _ in 0..maxlen {
            let mut next = vec![];
            for h in &hs {
                for c in &alpha {
                    let mut h2 = h.clone();
                    h2.push(c.clone());
                    next.push(h2);
                }
            }
            all.extend(next.iter().filter(|h| h.last() != Some(&Call::Reset)).cloned());
            hs = next;
        }
        let cfgs: Vec<Cfg> = {
            let mut v = vec![
                Cfg::new(p).range(4, 9).flags(true, true),
                Cfg::new(p).range(0, 0),
                Cfg::new(p), // default 60..300
                Cfg::new(p).range(4, 9).flags(true, true).muts(&Mk::ALL, 0.5, false),
                Cfg::new(p).range(4, 9).flags(true, true).muts(&Mk::ALL, 0.5, true),
            ];
            if !quick {
                v.push(Cfg::new(p).range(7, 3));
                v.push(Cfg::new(p).muts(&Mk::ALL, 1.0, true));
            }
            v
        };
        for cfg in cfgs {
            for h in &all {
                if cfg.min >= 60 && h.len() > 2 && quick {
                    continue; // default-size pickles: pairs only in quick
                }
                jobs.push((cfg.clone(), 42 + p as u64, h.clone()));
                n_hist += 1;
            }
        }
    }
    // size classes: a large earlier result (hundreds of KiB) must not influence a later small one
    for p in 0..=5u8 {
        let big = if quick { 14_000 } else { 30_000 };
        for cfg in [Cfg::new(p), Cfg::new(p).flags(true, true).muts(&Mk::ALL, 0.5, true)] {
            if quick && !cfg.mutators.is_empty() && p % 2 == 1 {
                continue;
            }
            let small_in = Call::Bytes(vec![0x07, 0x21, 0x03, 0x09]);
            for h in [
                vec![Call::SetRange(big, big), Call::Seeded, Call::SetRange(3, 6), Call::Seeded],
                vec![Call::SetRange(big, big), Call::Seeded, Call::SetRange(3, 6), Call::Reset, small_in.clone()],
                vec![Call::SetRange(2, 2), small_in.clone(), Call::SetRange(big / 2, big / 2), Call::Bytes(vec![0xff; 64]), Call::SetRange(2, 2), small_in.clone(), Call::Seeded],
            ] {
                jobs.push((cfg.clone(), 5 + p as u64, h));
                n_hist += 1;
            }
        }
    }
    let results: Vec<(u64, Vec<(String, String, serde_json::Value)>)> = jobs
        .par_iter()
        .map(|(cfg, seed, h)| {
            let mut bad = vec![];
            let got = run_history(cfg, *seed, h);
            let mut calls = 0u64;
            for (i, r) in &got {
                calls += 1;
                let want = fresh(&cfg_at(cfg, h, *i), *seed, &h[*i]);
                if *r != want {
                    let what = match (&r, &want) {
                        (Ok(a), Ok(b)) if a.len() > b.len() && a.ends_with(b) => "previous-output-prepended",
                        (Ok(a), Ok(b)) if a.len() > b.len() && a.starts_with(b) => "bytes-appended",
                        (Ok(_), Ok(_)) => "different-bytes",
                        (Err(_), _) => "error-on-reuse",
                        _ => "fresh-call-failed",
                    };
                    let prior_reset = h[..*i].iter().rev().find(|c| !matches!(c, Call::SetRange(..))) == Some(&Call::Reset);
                    let after_big = h[..*i].iter().any(|c| matches!(c, Call::SetRange(a, _) if *a >= 1000));
                    bad.push((
                        format!("{what}:{}{}:{}", if prior_reset { "after-reset" } else { "no-reset" }, if after_big { ":after-large-output" } else { "" }, match h[*i] { Call::Seeded => "generate", _ => "generate_from_arbitrary" }),
                        format!(
                            "{}: call #{i} {} returned {} bytes, a fresh generator returns {} bytes",
                            cfg.describe(),
                            h[*i].describe(),
                            r.as_ref().map(|b| b.len()).unwrap_or(0),
                            want.as_ref().map(|b| b.len()).unwrap_or(0)
                        ),
                        json!({"kind": "history", "config": cfg.to_json(), "seed": seed, "calls": h.iter().map(|c| c.to_json()).collect::<Vec<_>>(), "failing_call": i}),
                    ));
                    break;
                }
            }
            (calls, bad)
        })
        .collect();
    let mut calls = 0u64;
    for (c, bad) in results {
        calls += c;
        for (class, msg, rj) in bad {
            rep.finding_raw(&class, &msg, rj);
        }
    }
    rep.states = n_hist;
    rep.transitions = calls;
    rep.set("histories", json!(n_hist));
    rep.set("max_history_length", json!(maxlen));
    rep.set("generating_calls_compared", json!(calls));
    rep.sample(json!({"history": ["generate_from_arbitrary(ff x40)", "generate()", "generate_from_arbitrary()"], "oracle": "each result equals that of the same call on a fresh generator"}));
    rep.assumptions = vec![
        "call alphabet: 4 (6) fuzzer inputs leaving different residues (marks, memo entries, FRAME, deep stack), seeded generate(), reset(); all histories up to the stated length".into(),
        "differential oracle only: no expected bytes are hand-written".into(),
    ];
    rep.finish(true, "all call histories up to the stated length over the stated alphabet, per protocol and configuration; states = histories, transitions = generating calls compared")
}

pub fn replay(v: &serde_json::Value) -> i32 {
    let cfg = Cfg::from_json(&v["config"]);
    let seed = v["seed"].as_u64().unwrap_or(0);
    let h: Vec<Call> = v["calls"].as_array().map(|a| a.iter().map(Call::from_json).collect()).unwrap_or_default();
    println!("config: {} seed {seed}", cfg.describe());
    let got = run_history(&cfg, seed, &h);
    let mut bad = 0;
    for (i, r) in got {
        let want = fresh(&cfg_at(&cfg, &h, i), seed, &h[i]);
        let same = r == want;
        println!("call #{i} {}: {} bytes; fresh generator: {} bytes; equal={same}", h[i].describe(), r.as_ref().map(|b| b.len()).unwrap_or(0), want.as_ref().map(|b| b.len()).unwrap_or(0));
        if !same {
            bad += 1;
            if let (Ok(a), Ok(b)) = (&r, &want) {
                println!("  reused: {}\n  fresh:  {}", lexer::hex(&a[..a.len().min(64)]), lexer::hex(&b[..b.len().min(64)]));
            }
        }
    }
    if bad > 0 {
        1
    } else {
        0
    }
}
