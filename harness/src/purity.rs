//! C07 — generation is a pure function of configuration and entropy input.

use crate::checks_e1::FULL;
use crate::explore::{scenario, Explorer, Finding, FrameSel, Opts, RunCtx};
use crate::lexer;
use crate::report::{repo_dir, verif_dir, Report};
use crate::run::{run_bytes, run_seed, Cfg, Mk, ZERO_TAIL};
use crate::sched::{self, Work};
use pickle_fuzzer::verif;
use rayon::prelude::*;
use serde_json::json;
use std::collections::{BTreeMap, BTreeSet};
use std::process::Command;

fn digest(b: &[u8]) -> u64 {
    use std::hash::Hasher;
    let mut h = std::collections::hash_map::DefaultHasher::new();
    h.write(b);
    h.finish()
}

/// the job list whose digests must be identical in every thread, process and run
pub fn job_list(quick: bool) -> Vec<(Cfg, Option<Vec<u8>>, u64)> {
    let mut v = vec![];
    let inputs: Vec<Vec<u8>> = vec![vec![], vec![0xff; 48], (1..=90u8).collect(), vec![0x2a; 200], (0..=255u8).rev().collect()];
    for p in 0..=5u8 {
        for cfg in [Cfg::new(p), Cfg::new(p).flags(true, true).muts(&FULL, 0.5, false), Cfg::new(p).flags(true, true).muts(&FULL, 0.5, true), Cfg::new(p).range(5, 40)] {
            for s in 0..if quick { 12u64 } else { 200 } {
                v.push((cfg.clone(), None, s));
            }
            for i in &inputs {
                v.push((cfg.clone(), Some(i.clone()), 0));
            }
        }
    }
    v
}

pub fn digests_of(jobs: &[(Cfg, Option<Vec<u8>>, u64)]) -> Vec<u64> {
    jobs.iter()
        .map(|(c, i, s)| {
            let r = match i {
                Some(b) => run_bytes(c, b, false, false),
                None => run_seed(c, *s, false),
            };
            r.bytes().map(digest).unwrap_or(0)
        })
        .collect()
}

fn pair_configs() -> Vec<Cfg> {
    let mut v: Vec<Cfg> = (0..=5u8).map(Cfg::new).collect();
    for (e, b) in [(true, false), (false, true), (true, true)] {
        v.push(Cfg::new(5).flags(e, b));
    }
    v.push(Cfg::new(2).flags(true, false));
    v.push(Cfg::new(2).flags(true, true).muts(&FULL, 0.5, true));
    v.push(Cfg::new(5).flags(true, true).range(10, 30));
    v.push(Cfg::new(0).muts(&FULL, 1.0, false).range(10, 30));
    v
}

fn pair_digests(cfg: &Cfg) -> Vec<u64> {
    let mut d = vec![];
    for s in 0..6u64 {
        d.push(run_seed(cfg, s, false).bytes().map(digest).unwrap_or(0));
    }
    for i in [vec![], vec![0xffu8; 40], (1..=80u8).collect::<Vec<u8>>()] {
        d.push(run_bytes(cfg, &i, false, false).bytes().map(digest).unwrap_or(0));
    }
    d
}

/// `verif-harness --pair <a|none> <b>`: in a fresh process, use configuration a (if any), then print the digests of b
pub fn print_pair(a: &str, b: &str) {
    let cfgs = pair_configs();
    if let Ok(i) = a.parse::<usize>() {
        let _ = pair_digests(&cfgs[i]);
    }
    let j: usize = b.parse().unwrap();
    for d in pair_digests(&cfgs[j]) {
        println!("{d:016x}");
    }
}

/// `verif-harness --digests quick|thorough` : print the digest list (used from child processes)
pub fn print_digests(tier: &str) {
    let jobs = job_list(tier == "quick");
    for d in digests_of(&jobs) {
        println!("{d:016x}");
    }
}

/// replay of a "hash-order" finding: the same script under several memo hasher seeds
pub fn replay_hash_order(v: &serde_json::Value) -> i32 {
    let cfg = Cfg::from_json(&v["config"]);
    let script = lexer::unhex(v["script_hex"].as_str().unwrap_or(""));
    let n = v["hash_seeds"].as_u64().unwrap_or(8);
    let mut outs: BTreeMap<Vec<u8>, Vec<u64>> = BTreeMap::new();
    for hs in 0..n {
        verif::set_memo_hash_seed(hs);
        let mut g = cfg.build();
        let r = g.generate_from_arbitrary(&script).unwrap_or_default();
        outs.entry(r).or_default().push(hs);
    }
    verif::set_memo_hash_seed(0);
    println!("config: {}", cfg.describe());
    for (o, seeds) in &outs {
        println!("memo hash seeds {:?} -> {} bytes {}", &seeds[..seeds.len().min(8)], o.len(), lexer::hex(&o[..o.len().min(48)]));
    }
    (outs.len() > 1) as i32
}

/// replay of a "pair" finding: configuration a then b in a fresh process vs b alone
pub fn replay_pair(v: &serde_json::Value) -> i32 {
    let argv: Vec<String> = v["argv"].as_array().map(|a| a.iter().map(|x| x.as_str().unwrap_or("").to_string()).collect()).unwrap_or_default();
    if argv.len() < 3 {
        return 2;
    }
    let exe = std::env::current_exe().unwrap();
    let run = |a: &str, b: &str| Command::new(&exe).arg("--pair").arg(a).arg(b).output().map(|o| String::from_utf8_lossy(&o.stdout).to_string()).unwrap_or_default();
    let with = run(&argv[1], &argv[2]);
    let alone = run("none", &argv[2]);
    println!("first: {}\nthen:  {}", v["first"], v["then"]);
    println!("digests of 'then' after 'first': {}", with.replace('\n', " "));
    println!("digests of 'then' alone:         {}", alone.replace('\n', " "));
    (with != alone) as i32
}

fn perms_seen_all(k: usize, seen: &BTreeSet<Vec<usize>>) -> bool {
    let f: usize = (1..=k).product();
    seen.len() == f
}

pub fn c07(tier: &str) -> i32 {
    let quick = tier == "quick";
    let mut rep = Report::new("C07", tier);
    let verbose = std::env::var("VERIF_VERBOSE").is_ok();

    // ---- 1. replay determinism: every run of an exploration box is generated again on other threads
    let noop = |_: &RunCtx| -> Vec<Finding> { vec![] };
    let mut replayed = 0u64;
    for p in 0..=5u8 {
        if quick && !(p == 0 || p == 3 || p == 5) {
            continue;
        }
        for (label, cfg) in [("none", Cfg::new(p).flags(true, true)), ("full-unsafe@0.5", Cfg::new(p).flags(true, true).muts(&FULL, 0.5, true))] {
            let has_m = !cfg.mutators.is_empty();
            let opts = Opts { max_depth: if has_m { 1 } else { 2 }, max_memo: 2, dev_budget: 1, ref_in_key: false, frame: FrameSel::Both, collect_runs: true, ..Opts::default() };
            let ex = Explorer { base_cfg: cfg.clone(), opts, monitor: &noop, xval_full: Default::default(), choice_discovery: Default::default() };
            let out = ex.explore(None);
            // for this property a script that does not replay identically IS the finding (something besides the
            // configuration and the entropy input influenced the generator), not a machinery problem
            let mut st = out.stats.clone();
            for e in st.machinery_errors.drain(..) {
                if e.contains("divergence") {
                    rep.finding_raw("explorer-replay-divergence", &format!("P{p}/{label}: {e}"), json!({"kind":"digest","what":e}));
                } else {
                    rep.machinery.push(e);
                }
            }
            rep.add_stats(&format!("P{p}/{label}/replay-box"), &st);
            // second and third generation of every run: in a rayon pool (reversed order) and on a fresh OS thread
            let runs = out.runs;
            let again: Vec<Option<Vec<u8>>> = runs
                .par_iter()
                .rev()
                .map(|(s, k, _)| {
                    let mut c = cfg.clone();
                    c.min = *k;
                    c.max = *k;
                    let mut d = s.clone();
                    d.resize(s.len() + ZERO_TAIL, 0);
                    run_bytes(&c, &d, false, false).bytes().map(|b| b.to_vec())
                })
                .collect();
            let again: Vec<Option<Vec<u8>>> = again.into_iter().rev().collect();
            let cfg2 = cfg.clone();
            let runs2: Vec<(Vec<u8>, usize)> = runs.iter().step_by(7).map(|(s, k, _)| (s.clone(), *k)).collect();
            let third: Vec<Option<Vec<u8>>> = std::thread::spawn(move || {
                runs2
                    .iter()
                    .map(|(s, k)| {
                        let mut c = cfg2.clone();
                        c.min = *k;
                        c.max = *k;
                        // exhausted input instead of a zero tail: must give the same answers
                        run_bytes(&c, s, false, false).bytes().map(|b| b.to_vec())
                    })
                    .collect()
            })
            .join()
            .unwrap_or_default();
            for (i, (s, k, first)) in runs.iter().enumerate() {
                replayed += 1;
                let a = again[i].clone().unwrap_or_default();
                if a != *first {
                    let mut c = cfg.clone();
                    c.min = *k;
                    c.max = *k;
                    rep.finding_raw("replay-differs:other-thread", &format!("{}: script {} gave different bytes when generated again on another thread", c.describe(), lexer::hex(s)), json!({"kind":"bytes","config":c.to_json(),"script_hex":lexer::hex(s)}));
                }
                if i % 7 == 0 {
                    let t = third.get(i / 7).cloned().flatten().unwrap_or_default();
                    if t != *first {
                        let mut c = cfg.clone();
                        c.min = *k;
                        c.max = *k;
                        rep.finding_raw("replay-differs:exhausted-vs-zero-tail", &format!("{}: script {} differs between exhausted input and zero padding / fresh thread", c.describe(), lexer::hex(s)), json!({"kind":"bytes","config":c.to_json(),"script_hex":lexer::hex(s)}));
                    }
                }
            }
        }
    }
    rep.set("replayed_runs", json!(replayed));

    // ---- 2. hash-map iteration orders of the memo table, enumerated through the hasher seam
    let mut orders_seen: BTreeMap<usize, BTreeSet<Vec<usize>>> = BTreeMap::new();
    let hseeds: u64 = if quick { 48 } else { 512 };
    let mut hash_runs = 0u64;
    for p in 0..=5u8 {
        let puts: Vec<u8> = match p {
            0 => vec![b'p'],
            1..=3 => vec![b'q', b'r', b'p'],
            _ => vec![0x94, b'q', b'r', b'p'],
        };
        let gets: Vec<u8> = if p == 0 { vec![b'g'] } else { vec![b'g', b'h', b'j'] };
        for k in [2usize, 3, 4] {
            for (ml, muts, rate) in [("none", vec![], 0.1), ("memoindex@1", vec![Mk::Memoindex], 1.0), ("offbyone@1", vec![Mk::Offbyone], 1.0)] {
                if quick && !muts.is_empty() && k != 3 {
                    continue;
                }
                let cfg = Cfg::new(p).flags(true, true).muts(&muts, rate, false);
                let ex = Explorer { base_cfg: cfg.clone(), opts: Opts::default(), monitor: &noop, xval_full: Default::default(), choice_discovery: Default::default() };
                for put in &puts {
                    for get in &gets {
                        // NONE, PUT, (EMPTY_TUPLE/NONE, PUT)*, then GET with every index answer
                        let mut plan: Vec<Vec<u8>> = vec![];
                        for _ in 0..k {
                            plan.push(vec![b'N']);
                            plan.push(vec![*put]);
                        }
                        plan.push(vec![*get]);
                        verif::set_memo_hash_seed(0);
                        let Ok(base) = scenario(&ex, false, &plan) else { continue };
                        // the GET index draw is the last value draw: enumerate its answers by patching the tail
                        for idx_t in 0..(k as u64) * if muts.is_empty() { 1 } else { 3 } {
                            // with a memo-index mutator at rate 1.0 the draws after the index are: gate (8 bytes, ignored
                            // at rate 1.0) and one direction draw (gen_bool / gen_range(0,3)): enumerate it as well
                            let (idx, tail) = if muts.is_empty() { (idx_t, None) } else { (idx_t / 3, Some((idx_t % 3) as u8)) };
                            let mut script = base.script.clone();
                            // find the draws of the last step to patch the gen_range answer
                            let (_c, _r, tr) = ex.run(&script, plan.len());
                            let Some(st) = tr.steps.last() else { continue };
                            let Some(d) = st.draws.iter().find(|d| d.method == "gen_range" && !d.in_mutation) else { continue };
                            let enc = crate::script::enc_index(idx, k as u64);
                            script.truncate(d.off);
                            script.extend_from_slice(&enc);
                            if let Some(t) = tail {
                                script.extend_from_slice(&[0u8; 8]);
                                script.push(t);
                            }
                            let mut c = cfg.clone();
                            c.min = plan.len();
                            c.max = plan.len();
                            let mut outs: BTreeSet<Vec<u8>> = BTreeSet::new();
                            let mut first_bad: Option<u64> = None;
                            for hs in 0..hseeds {
                                verif::set_memo_hash_seed(hs);
                                let mut g = c.build();
                                let mut data = script.clone();
                                data.resize(script.len() + 256, 0);
                                let r = g.generate_from_arbitrary(&data).unwrap_or_default();
                                hash_runs += 1;
                                let order = verif::memo_key_order(&g);
                                orders_seen.entry(order.len()).or_default().insert(order);
                                if outs.insert(r) && outs.len() > 1 && first_bad.is_none() {
                                    first_bad = Some(hs);
                                }
                            }
                            verif::set_memo_hash_seed(0);
                            if outs.len() > 1 {
                                rep.finding_raw(
                                    &format!("hash-order-dependent:{}", lexer::name(*get)),
                                    &format!("{}: {} distinct outputs under {} memo hash seeds (first change at seed {:?}) for script {}", c.describe(), outs.len(), hseeds, first_bad, lexer::hex(&script)),
                                    json!({"kind":"hash-order","config":c.to_json(),"script_hex":lexer::hex(&script),"hash_seeds":hseeds}),
                                );
                            }
                        }
                    }
                }
            }
        }
    }
    // large memos (more than 256 entries: the 1-byte forms run out and code paths change): a few hash seeds suffice,
    // two seeds practically never order 257 keys the same way
    for p in 1..=5u8 {
        if quick && !(p == 1 || p == 4) {
            continue;
        }
        let put: Vec<u8> = if p >= 4 { vec![0x94] } else { vec![b'q', b'r', b'p'] };
        let n = 258usize;
        let cfg = Cfg::new(p).flags(true, true);
        let ex = Explorer { base_cfg: cfg.clone(), opts: Opts::default(), monitor: &noop, xval_full: Default::default(), choice_discovery: Default::default() };
        for get in [b'g', b'h', b'j'] {
            let mut plan: Vec<Vec<u8>> = vec![vec![b'N']];
            plan.extend(std::iter::repeat(put.clone()).take(n));
            plan.push(vec![get]);
            verif::set_memo_hash_seed(0);
            let Ok(base) = scenario(&ex, false, &plan) else { continue };
            let (_c, _r, tr) = ex.run(&base.script, plan.len());
            let Some(d) = tr.steps.last().and_then(|st| st.draws.iter().find(|d| d.method == "gen_range" && !d.in_mutation).cloned()) else { continue };
            let cnt = d.b - d.a;
            for idx in [0u64, 1, cnt / 2, cnt - 1] {
                let mut script = base.script.clone();
                script.truncate(d.off);
                script.extend_from_slice(&crate::script::enc_index(idx, cnt));
                let mut c = cfg.clone();
                c.min = plan.len();
                c.max = plan.len();
                let mut outs: BTreeSet<Vec<u8>> = BTreeSet::new();
                let mut orders: BTreeSet<Vec<usize>> = BTreeSet::new();
                let big_seeds = if quick { 6 } else { 32 };
                for hs in 0..big_seeds {
                    verif::set_memo_hash_seed(hs);
                    let mut g = c.build();
                    let mut data = script.clone();
                    data.resize(script.len() + 256, 0);
                    let r = g.generate_from_arbitrary(&data).unwrap_or_default();
                    hash_runs += 1;
                    orders.insert(verif::memo_key_order(&g));
                    outs.insert(r);
                }
                verif::set_memo_hash_seed(0);
                if orders.len() < 2 {
                    rep.machinery.push(format!("memo of {n} entries: hash seeds did not change the iteration order"));
                }
                if outs.len() > 1 {
                    rep.finding_raw(
                        &format!("hash-order-dependent:large-memo:{}", lexer::name(get)),
                        &format!("{}: {} distinct outputs under {big_seeds} memo hash seeds with a {n}-entry memo, script {}..", c.describe(), outs.len(), lexer::hex(&script[..script.len().min(24)])),
                        json!({"kind":"hash-order","config":c.to_json(),"script_hex":lexer::hex(&script),"hash_seeds":big_seeds}),
                    );
                }
            }
        }
    }
    for k in [2usize, 3] {
        let seen = orders_seen.get(&k).cloned().unwrap_or_default();
        if !perms_seen_all(k, &seen) {
            rep.machinery.push(format!("hash seeds 0..{hseeds} produced only {} of {}! iteration orders of a {k}-entry memo", seen.len(), k));
        }
    }
    rep.set("memo_hash_seeds", json!(hseeds));
    rep.set("memo_iteration_orders_observed", json!(orders_seen.iter().map(|(k, v)| (k.to_string(), json!(v.len()))).collect::<serde_json::Map<_, _>>()));
    rep.transitions += hash_runs;

    // ---- 3. schedules: concurrent generator instances, draw-granularity interleavings, preemption bound
    let mut sched_summary = vec![];
    let works_sets: Vec<(String, Vec<Work>)> = {
        let mut v = vec![];
        // scripts chosen so that the threads touch everything global: GLOBAL/INST (lazily built module table) first
        for p in [0u8, 2, 5] {
            let cfg = Cfg::new(p).flags(true, true);
            let ex = Explorer { base_cfg: cfg.clone(), opts: Opts::default(), monitor: &noop, xval_full: Default::default(), choice_discovery: Default::default() };
            let mk = |plan: &[u8]| -> Option<Work> {
                // string-carrying opcodes get a non-empty payload (length byte + character indices), so that the
                // threads draw inside loops and interleave there
                let planv: Vec<(Vec<u8>, Vec<u8>)> = plan
                    .iter()
                    .enumerate()
                    .map(|(i, c)| (vec![*c], if matches!(*c, b'V' | b'S' | b'X' | 0x8c | b'U' | b'T') { vec![3, 1 + i as u8, 2 + i as u8, 40] } else { vec![] }))
                    .collect();
                let r = crate::explore::scenario_vals(&ex, false, &planv).ok()?;
                let mut c = cfg.clone();
                c.min = plan.len();
                c.max = plan.len();
                Some(Work::Bytes(c, r.script))
            };
            let put = if p == 0 { b'p' } else { b'q' };
            let get = if p == 0 { b'g' } else { b'h' };
            let a = mk(&[b'c', put, b'V', get]);
            let b = mk(&[b'V', put, b'c', b'(', b'N', b'i']);
            let c = mk(&[b'c', b'N', put, get, b'0']);
            if let (Some(a), Some(b), Some(c)) = (a, b, c) {
                v.push((format!("P{p}/2-threads/global+memo+strings"), vec![a.clone(), b.clone()]));
                if !quick || p == 2 {
                    v.push((format!("P{p}/3-threads"), vec![a, b, c]));
                }
            }
            let mc = Cfg::new(p).flags(true, true).muts(&FULL, 0.5, true).range(3, 3);
            v.push((format!("P{p}/2-threads/mutators-unsafe"), vec![Work::Bytes(mc.clone(), vec![0x01, 0x00, 0x09, 0x00, 0x00, 0x00, 0x00, 0x00, 0x00, 0x00, 0x40]), Work::Bytes(mc, vec![0x00, 0x02, 0x07])]));
            if !quick {
                v.push((format!("P{p}/2-threads/seeded"), vec![Work::Seeded(Cfg::new(p).range(4, 6), 1), Work::Seeded(Cfg::new(p).range(4, 6), 1)]));
            }
        }
        v
    };
    let mut total_sched = 0u64;
    for (label, works) in &works_sets {
        let solo: Vec<Result<Vec<u8>, String>> = works.iter().map(|w| w.run_solo()).collect();
        let bounds: Vec<usize> = if works.len() >= 3 { if quick { vec![0, 1] } else { vec![0, 1, 2] } } else if quick { vec![0, 1, 2] } else { vec![0, 1, 2, 3] };
        let mut last = None;
        for b in bounds {
            let mut bad: Vec<(Vec<usize>, usize)> = vec![];
            let mut diverged: Vec<String> = vec![];
            let st = sched::explore(works, b, if quick { 4000 } else { 200_000 }, &mut |x| {
                if let Some(d) = &x.divergence {
                    diverged.push(d.clone());
                }
                for (i, o) in x.outputs.iter().enumerate() {
                    if *o != solo[i] && bad.len() < 3 {
                        bad.push((x.taken.clone(), i));
                    }
                }
            });
            total_sched += st.schedules;
            for d in diverged.iter().take(2) {
                rep.machinery.push(format!("{label}: {d}"));
            }
            for (sch, i) in bad {
                // a failing schedule must fail identically when replayed
                let again = sched::execute(works, &sch);
                let same = again.outputs[i] != solo[i];
                rep.finding_raw(
                    "schedule-dependent-output",
                    &format!("{label}: thread {i} ({}) returned different bytes than when run alone under schedule {:?} (replayed: fails again = {same})", works[i].describe(), sch),
                    json!({"kind":"schedule","label":label,"schedule":sch,"thread":i,"works": works.iter().map(|w| w.describe()).collect::<Vec<_>>()}),
                );
            }
            last = Some(json!({"harness": label, "threads": works.len(), "preemption_bound": b, "schedules": st.schedules, "scheduling_points": st.points, "longest_schedule": st.max_points_in_a_schedule, "distinct_outcomes": st.distinct_outcomes, "capped": st.capped}));
            if verbose {
                eprintln!("sched {label} bound {b}: {} schedules, {} points, {} outcomes capped={}", st.schedules, st.points, st.distinct_outcomes, st.capped);
            }
        }
        if let Some(l) = last {
            sched_summary.push(l);
        }
        // the same schedule twice gives identical observations
        let x1 = sched::execute(works, &[]);
        let x2 = sched::execute(works, &x1.taken);
        if x1.taken != x2.taken || x1.outputs != x2.outputs {
            rep.machinery.push(format!("{label}: replaying a recorded schedule gave different observations"));
        }
    }
    rep.states += total_sched;
    rep.transitions += total_sched;
    rep.set("schedule_exploration", json!(sched_summary));

    // ---- 4. processes and worker counts (sampled: addresses, OS state)
    let jobs = job_list(quick);
    let mine: Vec<String> = digests_of(&jobs).iter().map(|d| format!("{d:016x}")).collect();
    let par: Vec<String> = jobs.par_iter().map(|j| format!("{:016x}", digests_of(std::slice::from_ref(j))[0])).collect();
    if par != mine {
        rep.finding_raw("digest-differs:threads", "digest list computed on the rayon pool differs from the list computed sequentially", json!({"kind":"digest"}));
    }
    let nproc = if quick { 3 } else { 8 };
    let exe = std::env::current_exe().unwrap();
    for i in 0..nproc {
        match Command::new(&exe).arg("--digests").arg(tier).env("RAYON_NUM_THREADS", format!("{}", 1 + i)).output() {
            Ok(o) if o.status.success() => {
                let theirs: Vec<String> = String::from_utf8_lossy(&o.stdout).lines().map(|l| l.to_string()).collect();
                if theirs != mine {
                    let idx = theirs.iter().zip(mine.iter()).position(|(a, b)| a != b).unwrap_or(0);
                    let (c, inp, s) = &jobs[idx.min(jobs.len() - 1)];
                    rep.finding_raw(
                        "digest-differs:process",
                        &format!("process #{i}: job {idx} ({} input {:?} seed {s}) has a different digest than in this process", c.describe(), inp.as_ref().map(|b| lexer::hex(b))),
                        json!({"kind":"digest","job":idx,"config":c.to_json()}),
                    );
                }
            }
            other => rep.machinery.push(format!("digest child #{i} failed: {other:?}")),
        }
    }
    rep.transitions += (jobs.len() * (2 + nproc)) as u64;
    rep.set("digest_jobs", json!(jobs.len()));
    rep.set("fresh_processes", json!(nproc));

    // cross-generator histories in fresh processes: using one configuration must not change what another returns
    // (process-wide caches, lazily built tables): every ordered pair of the configuration set
    {
        let cfgs = pair_configs();
        let n = cfgs.len();
        let run = |a: Option<usize>, b: usize| -> Result<Vec<String>, String> {
            let o = Command::new(&exe).arg("--pair").arg(a.map(|x| x.to_string()).unwrap_or("none".into())).arg(b.to_string()).output().map_err(|e| e.to_string())?;
            if !o.status.success() {
                return Err(format!("exit {:?}", o.status.code()));
            }
            Ok(String::from_utf8_lossy(&o.stdout).lines().map(|l| l.to_string()).collect())
        };
        let alone: Vec<Result<Vec<String>, String>> = (0..n).into_par_iter().map(|b| run(None, b)).collect();
        let pairs: Vec<(usize, usize)> = (0..n).flat_map(|a| (0..n).filter(move |b| *b != a).map(move |b| (a, b))).collect();
        let res: Vec<((usize, usize), Result<Vec<String>, String>)> = pairs.par_iter().map(|(a, b)| ((*a, *b), run(Some(*a), *b))).collect();
        for ((a, b), r) in res {
            match (&r, &alone[b]) {
                (Ok(x), Ok(y)) if x == y => {}
                (Ok(_), Ok(_)) => rep.finding_raw(
                    "cross-generator-history",
                    &format!("in a fresh process, generating with [{}] first changes what [{}] returns", cfgs[a].describe(), cfgs[b].describe()),
                    json!({"kind":"pair","first":cfgs[a].to_json(),"then":cfgs[b].to_json(),"argv":["--pair", a.to_string(), b.to_string()]}),
                ),
                (e1, e2) => rep.machinery.push(format!("pair child failed: {e1:?} {e2:?}")),
            }
        }
        rep.transitions += (pairs.len() + n) as u64;
        rep.set("cross_generator_pairs_in_fresh_processes", json!(pairs.len()));
    }

    // CLI batch mode under different worker counts (hooks-off release binary built by bin/check)
    let cli = std::env::var("VERIF_CLI").unwrap_or_else(|_| format!("{}/target/cli/release/pickle-fuzzer", verif_dir()));
    if std::path::Path::new(&cli).exists() {
        let base = format!("{}/target/c07-batch-{}", verif_dir(), std::process::id());
        let mut listing: Option<Vec<(String, u64)>> = None;
        let mut runs = 0;
        for threads in [1, 2, 3, 16] {
            for args in [vec!["--seed", "7", "--samples", "9"], vec!["--seed", "11", "--protocol", "4", "--samples", "5", "--mutators", "all", "--unsafe-mutations", "--mutation-rate", "0.5"]] {
                if args[1] != "7" && listing.is_some() && quick && threads == 3 {
                    continue;
                }
                let dir = format!("{base}-{threads}-{}", args[1]);
                let _ = std::fs::remove_dir_all(&dir);
                let st = Command::new(&cli).arg("--dir").arg(&dir).args(&args).env("RAYON_NUM_THREADS", threads.to_string()).output();
                runs += 1;
                match st {
                    Ok(o) if o.status.success() => {
                        let mut files: Vec<(String, u64)> = std::fs::read_dir(&dir)
                            .map(|rd| rd.filter_map(|e| e.ok()).map(|e| (e.file_name().to_string_lossy().to_string(), digest(&std::fs::read(e.path()).unwrap_or_default()))).collect())
                            .unwrap_or_default();
                        files.sort();
                        let key = format!("{}", args[1]);
                        let _ = key;
                        if args[1] == "7" {
                            match &listing {
                                None => listing = Some(files),
                                Some(l) => {
                                    if *l != files {
                                        rep.finding_raw("batch-differs:worker-count", &format!("batch output with RAYON_NUM_THREADS={threads} differs from the run with 1 worker ({})", args.join(" ")), json!({"kind":"cli","argv":args,"threads":threads}));
                                    }
                                }
                            }
                        }
                    }
                    other => rep.machinery.push(format!("CLI batch run failed: {other:?}")),
                }
                let _ = std::fs::remove_dir_all(&dir);
            }
        }
        rep.set("cli_batch_runs", json!(runs));
    } else {
        rep.machinery.push(format!("CLI binary {cli} not built (bin/check builds it; repo {})", repo_dir()));
    }
    // ---- configuration paths: one configuration reached through different public routes (builder order, the single-knob
    //      builders, with_mutator one at a time, plain field assignment, builders overwritten on the way) is one configuration
    {
        use pickle_fuzzer::{Generator, Version};
        let mut n_paths = 0u64;
        let inputs: Vec<Option<Vec<u8>>> = vec![None, Some(vec![]), Some((1..=120u8).collect()), Some(vec![0x01, 0xff, 0x03, 0x81, 0x22, 0x07, 0x09, 0x40, 0x11])];
        for p in 0..=5u8 {
            let cfgs = [
                Cfg::new(p),
                Cfg::new(p).range(5, 40).flags(true, false),
                Cfg::new(p).range(40, 5).flags(false, true),
                Cfg::new(p).flags(true, true).muts(&FULL, 0.5, false),
                Cfg::new(p).flags(true, true).muts(&FULL, 0.5, true),
                Cfg::new(p).range(10, 30).muts(&[Mk::Offbyone, Mk::Typeconfusion, Mk::Memoindex], 1.0, true),
                Cfg::new(p).range(10, 30).muts(&[Mk::Typeconfusion, Mk::Character], 0.0, false),
            ];
            for cfg in cfgs {
                let v = Version::try_from(cfg.proto as usize).unwrap();
                let muts = |c: &Cfg| -> Vec<Box<dyn pickle_fuzzer::Mutator>> { c.mutators.iter().map(|m| m.kind().create(c.unsafe_mut)).collect() };
                let paths: Vec<(&str, Box<dyn Fn() -> Generator>)> = vec![
                    ("builders, mutators first", Box::new(|| {
                        let mut g = Generator::new(v);
                        if !cfg.mutators.is_empty() {
                            g = g.with_mutators(muts(&cfg));
                        }
                        g.with_mutation_rate(cfg.rate).with_buffer_opcodes(cfg.buffer).with_ext_opcodes(cfg.ext).with_unsafe_mutations(cfg.unsafe_mut).with_max_opcodes(cfg.max).with_min_opcodes(cfg.min)
                    })),
                    ("builders, mutators last one at a time", Box::new(|| {
                        let mut g = Generator::new(v).with_min_opcodes(cfg.min).with_max_opcodes(cfg.max).with_unsafe_mutations(cfg.unsafe_mut).with_ext_opcodes(cfg.ext).with_buffer_opcodes(cfg.buffer).with_mutation_rate(cfg.rate);
                        for m in muts(&cfg) {
                            g = g.with_mutator(m);
                        }
                        g
                    })),
                    ("every knob set to something else first, then overwritten", Box::new(|| {
                        let mut g = Generator::new(v)
                            .with_opcode_range(7, 7)
                            .with_unsafe_mutations(!cfg.unsafe_mut)
                            .with_ext_opcodes(!cfg.ext)
                            .with_buffer_opcodes(!cfg.buffer)
                            .with_mutation_rate(1.0 - cfg.rate)
                            .with_mutators(vec![pickle_fuzzer::MutatorKind::Bitflip.create(!cfg.unsafe_mut)])
                            .with_buffer_size(17)
                            .with_seed(999);
                        g = g.with_opcode_range(cfg.min, cfg.max).with_unsafe_mutations(cfg.unsafe_mut).with_ext_opcodes(cfg.ext).with_buffer_opcodes(cfg.buffer).with_mutation_rate(cfg.rate).with_mutators(muts(&cfg));
                        g.seed = None;
                        g
                    })),
                    ("default generator, public fields assigned", Box::new(|| {
                        let mut g = Generator::new(v);
                        g.min_opcodes = cfg.min;
                        g.max_opcodes = cfg.max;
                        g.mutation_rate = cfg.rate;
                        g.unsafe_mutations = cfg.unsafe_mut;
                        g.allow_ext_opcodes = cfg.ext;
                        g.allow_buffer_opcodes = cfg.buffer;
                        g.mutators = muts(&cfg);
                        g
                    })),
                ];
                for inp in &inputs {
                    let want = match inp {
                        None => run_seed(&cfg, 77, false).out,
                        Some(b) => run_bytes(&cfg, b, false, false).out,
                    };
                    for (name, mk) in &paths {
                        n_paths += 1;
                        let mut g = mk();
                        let got = match inp {
                            None => {
                                g = g.with_seed(77);
                                crate::run::run_on(&mut g, crate::run::Entropy::Seeded, false, false).out
                            }
                            Some(b) => crate::run::run_on(&mut g, crate::run::Entropy::Bytes(b), false, false).out,
                        };
                        if got != want {
                            rep.finding_raw(
                                &format!("configuration-path-differs:{}", name.split(',').next().unwrap_or("?").replace(' ', "-")),
                                &format!("{}: configured through [{name}] the generator returns {} bytes, through with_opcode_range/with_mutators {} bytes, for {}", cfg.describe(), got.as_ref().map(|b| b.len()).unwrap_or(0), want.as_ref().map(|b| b.len()).unwrap_or(0), match inp { None => "generate() with seed 77".to_string(), Some(b) => format!("generate_from_arbitrary({})", lexer::hex(b)) }),
                                json!({"kind":"digest","what":"configuration path","config":cfg.to_json(),"path":name}),
                            );
                        }
                    }
                }
            }
        }
        rep.transitions += n_paths;
        rep.set("configuration_paths", json!({"generations": n_paths, "paths": ["builders, mutators first", "builders, mutators last one at a time", "every knob set to something else first, then overwritten", "default generator, public fields assigned"]}));
    }
    rep.sample(json!({"schedule_harness": works_sets.first().map(|w| w.1.iter().map(|x| x.describe()).collect::<Vec<_>>()), "oracle": "each thread's bytes equal the bytes of the same call run alone"}));
    rep.sample(json!({"hash_order": "NONE PUT NONE PUT NONE PUT GET(index i) under memo hash seeds 0..N", "oracle": "identical bytes under every iteration order of memo.keys()"}));
    rep.assumptions = vec![
        "schedules are interleaved at entropy-draw granularity only (the crate has no unsafe/static mut/atomics; shared items: one OnceLock module table)".into(),
        "hash-map iteration order of the memo is enumerated through the verif-hooks hasher seam; pointer-hashed Dict/Set containers and allocation addresses can only be sampled (fresh processes)".into(),
        "process / worker-count equality is sampled, not enumerated".into(),
    ];
    rep.finish(true, "replay of every run of a state box on other threads; all memo iteration orders (k<=3) via hasher seeds; all schedules up to the preemption bound at draw granularity; fresh processes and worker counts sampled")
}
