//! C09 — totality: no panic, no Err, non-empty output, no stack overflow, terminates.

use crate::checks_e1::{monitor_for, FULL};
use crate::explore::{scenario, Explorer, Finding, FrameSel, Opts, RunCtx};
use crate::lexer;
use crate::report::Report;
use crate::run::{run_bytes, run_seed, Cfg, Mk};
use crate::units::short_strings;
use rayon::prelude::*;
use serde_json::json;
use std::process::Command;
use std::time::{Duration, Instant};

fn judge(cfg: &Cfg, r: &crate::run::RunResult) -> Option<(String, String)> {
    if let Some(p) = &r.panic {
        let site = p.split(':').take(2).collect::<Vec<_>>().join(":");
        return Some((format!("panic:{}", site.split_whitespace().last().unwrap_or("?")), format!("{}: panicked: {p}", cfg.describe())));
    }
    match &r.out {
        Err(e) => Some((format!("err:{}", e.split_whitespace().take(4).collect::<Vec<_>>().join("_")), format!("{}: returned Err: {e}", cfg.describe()))),
        Ok(b) if b.is_empty() => Some(("empty-output".into(), format!("{}: returned an empty byte string", cfg.describe()))),
        Ok(_) => None,
    }
}

/// (first opcode, repeated opcode, label): body = first, then `repeat` T-1 times
pub const STRATEGIES: [(u8, u8, &str); 6] = [
    (b'N', b'N', "always-NONE (T scalars, then the collapse tail)"),
    (b'N', 0x85, "always-TUPLE1 (nesting depth T)"),
    (b'(', b'(', "always-MARK (T marks, T TUPLEs in the tail, nesting depth T)"),
    (b']', b'2', "EMPTY_LIST then always-DUP (T aliases of one list)"),
    (b'N', b'2', "NONE then always-DUP"),
    (b'N', b'p', "NONE then always-PUT (memo of T entries)"),
];

pub fn strategy_ops(p: u8, first: u8, rep: u8) -> Option<(u8, u8)> {
    // substitute opcodes that do not exist in the protocol
    let rep = match (rep, p) {
        (0x85, 0 | 1) => b'l', // no TUPLE1 below protocol 2: MARK ... is not steady; use nothing
        (r, _) => r,
    };
    if rep == b'l' {
        return None;
    }
    Some((first, rep))
}

/// script prefix (first step) and the repeating unit for "first, then rep forever"
pub fn steady(ex: &Explorer, first: u8, rep: u8) -> Result<(Vec<u8>, Vec<u8>), String> {
    let mk = |n: usize| -> Result<Vec<u8>, String> {
        let mut plan = vec![vec![first]];
        plan.extend(std::iter::repeat(vec![rep]).take(n));
        scenario(ex, false, &plan).map(|r| r.script)
    };
    let a = mk(10)?;
    let b = mk(11)?;
    let c = mk(12)?;
    if !(b.starts_with(&a) && c.starts_with(&b)) {
        return Err("scripts are not prefix-extending".into());
    }
    let u1 = b[a.len()..].to_vec();
    let u2 = c[b.len()..].to_vec();
    if u1 != u2 || u1.is_empty() {
        return Err(format!("no steady repeating unit ({} vs {})", lexer::hex(&u1), lexer::hex(&u2)));
    }
    Ok((a, u1))
}

struct ChildResult {
    label: String,
    ok: bool,
    class: String,
    msg: String,
    secs: f64,
    replay: serde_json::Value,
}

fn run_child(p: u8, t: usize, prefix: &[u8], unit: &[u8], kib: usize, muts: &str, label: &str, watchdog: Duration) -> ChildResult {
    let exe = std::env::current_exe().unwrap();
    let args = vec![
        "--child".to_string(),
        p.to_string(),
        t.to_string(),
        lexer::hex(prefix),
        lexer::hex(unit),
        kib.to_string(),
        muts.to_string(),
    ];
    let t0 = Instant::now();
    if std::env::var("VERIF_VERBOSE").is_ok() {
        eprintln!("child: {label}: --child {}", args[1..].join(" "));
    }
    let replay = json!({"kind": "child", "argv": args, "what": label});
    let mut child = match Command::new(&exe).args(&args).stdout(std::process::Stdio::piped()).stderr(std::process::Stdio::piped()).spawn() {
        Ok(c) => c,
        Err(e) => {
            return ChildResult { label: label.into(), ok: false, class: "machinery:spawn".into(), msg: format!("cannot spawn child: {e}"), secs: 0.0, replay }
        }
    };
    loop {
        match child.try_wait() {
            Ok(Some(st)) => {
                let out = child.wait_with_output().ok();
                let so = out.as_ref().map(|o| String::from_utf8_lossy(&o.stdout).to_string()).unwrap_or_default();
                let se = out.as_ref().map(|o| String::from_utf8_lossy(&o.stderr).to_string()).unwrap_or_default();
                let secs = t0.elapsed().as_secs_f64();
                if st.success() && so.contains("CHILD-OK") {
                    return ChildResult { label: label.into(), ok: true, class: String::new(), msg: so.trim().to_string(), secs, replay };
                }
                use std::os::unix::process::ExitStatusExt;
                let (class, msg) = if let Some(sig) = st.signal() {
                    (
                        if se.contains("overflowed its stack") || sig == 11 || sig == 6 { "stack-overflow".to_string() } else { format!("signal-{sig}") },
                        format!("child died with signal {sig}: {}", se.lines().last().unwrap_or("")),
                    )
                } else {
                    (format!("child-exit-{}", st.code().unwrap_or(-1)), format!("{} {}", so.trim(), se.lines().last().unwrap_or("")))
                };
                return ChildResult { label: label.into(), ok: false, class, msg, secs, replay };
            }
            Ok(None) => {
                if t0.elapsed() > watchdog {
                    let _ = child.kill();
                    let _ = child.wait();
                    return ChildResult { label: label.into(), ok: false, class: "watchdog".into(), msg: format!("did not finish within {:?}", watchdog), secs: t0.elapsed().as_secs_f64(), replay };
                }
                std::thread::sleep(Duration::from_millis(20));
            }
            Err(e) => {
                return ChildResult { label: label.into(), ok: false, class: "machinery:wait".into(), msg: format!("{e}"), secs: 0.0, replay }
            }
        }
    }
}

pub fn c09(tier: &str) -> i32 {
    let quick = tier == "quick";
    let mut rep = Report::new("C09", tier);
    let verbose = std::env::var("VERIF_VERBOSE").is_ok();

    // (a) alias-sensitive exploration (K_shape): every opcode sequence up to Lp from the empty stack
    let mon = monitor_for("C09");
    let guard = |ctx: &RunCtx| -> Vec<Finding> { mon(ctx) };
    for p in 0..=5u8 {
        for (label, cfg) in [
            ("none", Cfg::new(p).flags(true, true)),
            ("full-safe@0.5", Cfg::new(p).flags(true, true).muts(&FULL, 0.5, false)),
            ("full-unsafe@0.5", Cfg::new(p).flags(true, true).muts(&FULL, 0.5, true)),
        ] {
            let has_m = !cfg.mutators.is_empty();
            let lp = match (quick, has_m, p) {
                (true, false, 0) => 4,
                (true, false, _) => 3,
                (true, true, _) => 2,
                (false, false, 0) => 6,
                (false, false, 1..=3) => 5,
                (false, false, _) => 4,
                (false, true, _) => 3,
            };
            // exact object graphs multiply quickly: value deviations only on the short paths
            let opts = Opts { max_depth: 64, max_memo: 64, dev_budget: if has_m || (!quick && lp <= 4 && p >= 4) { 1 } else { 0 }, frame: FrameSel::Off, ref_in_key: false, shape_key: true, max_path: lp, ..Opts::default() };
            let t0 = Instant::now();
            let ex = Explorer { base_cfg: cfg, opts, monitor: &guard, xval_full: Default::default(), choice_discovery: Default::default() };
            let out = ex.explore(None);
            let l = format!("P{p}/{label}/shape/Lp{lp}");
            if verbose {
                eprintln!("plan {l:<40} states={:>8} transitions={:>10} {:.2}s", out.stats.states, out.stats.transitions, t0.elapsed().as_secs_f64());
            }
            rep.add_stats(&l, &out.stats);
            for fd in &out.found {
                rep.finding(fd);
            }
        }
    }

    // (a'') alias-relation closure (kind classes + which roots are the same cell / reach each other): RefCell borrow
    //       conflicts and teardown problems depend on aliasing between operands, whatever the path length
    for p in (0..=5u8).rev() {
        let (d, m) = match (quick, p) {
            (true, 5) => (3, 1),
            (true, _) => (2, 1),
            (false, 0) => (4, 2),
            (false, _) => (3, 2),
        };
        let opts = Opts { max_depth: d, max_memo: m, dev_budget: 0, frame: FrameSel::Off, ref_in_key: false, alias_key: true, ..Opts::default() };
        let t0 = Instant::now();
        let ex = Explorer { base_cfg: Cfg::new(p).flags(true, true), opts, monitor: &guard, xval_full: Default::default(), choice_discovery: Default::default() };
        let out = ex.explore(None);
        let l = format!("P{p}/none/alias-relation/D{d}M{m}");
        if verbose {
            eprintln!("plan {l:<40} states={:>8} transitions={:>10} {:.2}s", out.stats.states, out.stats.transitions, t0.elapsed().as_secs_f64());
        }
        rep.add_stats(&l, &out.stats);
        for fd in &out.found {
            rep.finding(fd);
        }
    }

    // (a') kind-keyed closure with value deviations: reaches states with memo entries and every mutator gate/value
    //      combination at a small depth (the alias-exact search above is bounded by path length instead)
    for p in (0..=5u8).rev() {
        for (label, cfg) in [
            ("none", Cfg::new(p).flags(true, true)),
            ("full-safe@0.5", Cfg::new(p).flags(true, true).muts(&FULL, 0.5, false)),
            ("full-unsafe@0.5", Cfg::new(p).flags(true, true).muts(&FULL, 0.5, true)),
            ("full-unsafe-reversed@1.0", Cfg::new(p).flags(true, true).muts(&{ let mut v = FULL.to_vec(); v.reverse(); v }, 1.0, true)),
        ] {
            let has_m = !cfg.mutators.is_empty();
            let boxes: Vec<(usize, usize, usize)> = match (quick, has_m) {
                (true, false) => vec![(2, 2, 1)],
                (true, true) => vec![(1, 1, 1), (2, 2, 0)],
                (false, false) => vec![(3, 2, 1), (2, 1, 2)],
                (false, true) => vec![(2, 1, 1), (1, 2, 1), (1, 1, 2)],
            };
            for (d, m, b) in boxes {
                // gate draws come from fuzzer bytes: besides "fires" (0.0) and "declines" (2.0) also NaN and a negative value
                let opts = Opts { max_depth: d, max_memo: m, dev_budget: b, frame: FrameSel::Both, ref_in_key: false, gate_alphabet: if b == 1 || (!quick && b == 0) { vec![2.0, f64::NAN, -1.0] } else if b == 0 { vec![2.0] } else { vec![] }, ..Opts::default() };
                let t0 = Instant::now();
                let ex = Explorer { base_cfg: cfg.clone(), opts, monitor: &guard, xval_full: Default::default(), choice_discovery: Default::default() };
                let out = ex.explore(None);
                let l = format!("P{p}/{label}/D{d}M{m}b{b}");
                if verbose {
                    eprintln!("plan {l:<40} states={:>8} transitions={:>10} {:.2}s", out.stats.states, out.stats.transitions, t0.elapsed().as_secs_f64());
                }
                rep.add_stats(&l, &out.stats);
                for fd in &out.found {
                    rep.finding(fd);
                }
            }
        }
    }

    // (a3) mutator lists are multisets: `with_mutators` (and --mutators a b a) accept the same mutator more than once and in
    //      any order, and each instance post-processes what the previous one left. Every ordered pair (including X,X) and
    //      the full list twice, safe and unsafe, closure at depth 1 with one value deviation and both gate answers
    {
        let mut lists: Vec<(String, Vec<Mk>)> = vec![];
        for a in Mk::ALL {
            for b in Mk::ALL {
                if quick && a != b && !(a == Mk::Typeconfusion || b == Mk::Typeconfusion) {
                    continue;
                }
                lists.push((format!("{}+{}", a.name(), b.name()), vec![a, b]));
            }
        }
        let mut twice = FULL.to_vec();
        twice.extend_from_slice(&FULL);
        lists.push(("full+full".into(), twice));
        let mut n_lists = 0u64;
        let t0 = Instant::now();
        for p in (0..=5u8).rev() {
            if quick && !matches!(p, 5 | 2 | 0) {
                continue;
            }
            for (name, l) in &lists {
                for uns in [true, false] {
                    let cfg = Cfg::new(p).flags(true, true).muts(l, 0.5, uns);
                    let boxes: Vec<(usize, usize, usize)> = if quick { vec![(1, 1, 1)] } else { vec![(1, 1, 1), (2, 1, 0)] };
                    for (d, m, b) in boxes {
                        let opts = Opts { max_depth: d, max_memo: m, dev_budget: b, frame: FrameSel::Both, ref_in_key: false, gate_alphabet: vec![2.0], ..Opts::default() };
                        let ex = Explorer { base_cfg: cfg.clone(), opts, monitor: &guard, xval_full: Default::default(), choice_discovery: Default::default() };
                        let out = ex.explore(None);
                        let lab = format!("P{p}/{name}/{}/D{d}M{m}b{b}", if uns { "unsafe" } else { "safe" });
                        // stats are summed: one evidence row for the whole family keeps the file readable
                        rep.states += out.stats.states;
                        rep.transitions += out.stats.transitions;
                        for e in &out.stats.machinery_errors {
                            rep.machinery.push(format!("{lab}: {e}"));
                        }
                        for fd in &out.found {
                            rep.finding(fd);
                        }
                        n_lists += 1;
                    }
                }
            }
        }
        if verbose {
            eprintln!("mutator multisets: {n_lists} explorations {:.2}s", t0.elapsed().as_secs_f64());
        }
        rep.set("mutator_multiset_explorations", json!({"lists": lists.iter().map(|x| x.0.clone()).collect::<Vec<_>>(), "explorations": n_lists,
            "note": "ordered pairs of mutators (X,X included) and the full list twice, protocols 0..5 (quick: 5, 2, 0 and only the pairs with a repeated mutator or with typeconfusion), safe and unsafe, depth-1 closure (thorough: also depth 2) with one value deviation and both gate answers"}));
    }

    // (b) every byte string of length <= 2 through the public API, several ranges and configurations
    let strings = short_strings();
    let mut cfgs: Vec<Cfg> = vec![];
    for p in 0..=5u8 {
        for (min, max) in [(60usize, 300usize), (0, 0), (5, 2), (1, 1)] {
            if quick && (min, max) == (1, 1) {
                continue;
            }
            cfgs.push(Cfg::new(p).range(min, max));
            cfgs.push(Cfg::new(p).range(min, max).flags(true, true).muts(&FULL, 0.5, true));
            if !quick {
                cfgs.push(Cfg::new(p).range(min, max).flags(true, true).muts(&FULL, 1.0, false));
            }
        }
    }
    let t0 = Instant::now();
    let bad: Vec<(String, String, serde_json::Value)> = cfgs
        .par_iter()
        .flat_map_iter(|cfg| {
            let mut v = vec![];
            for s in &strings {
                // default-size pickles are ~50 us each: in quick only every 16th 2-byte string for them
                if quick && cfg.min >= 60 && s.len() == 2 && (s[0] as usize * 256 + s[1] as usize) % 16 != 0 {
                    continue;
                }
                let r = run_bytes(cfg, s, false, false);
                if let Some((class, msg)) = judge(cfg, &r) {
                    v.push((class, format!("{msg} on input {}", lexer::hex(s)), json!({"kind":"bytes","config":cfg.to_json(),"script_hex":lexer::hex(s)})));
                    if v.len() > 4 {
                        break;
                    }
                }
            }
            v
        })
        .collect();
    let n_b: u64 = cfgs.iter().map(|c| if quick && c.min >= 60 { 257 + 4096 } else { strings.len() as u64 }).sum();
    rep.transitions += n_b;
    rep.states += strings.len() as u64;
    rep.set("byte_strings_len_le_2", json!({"strings": strings.len(), "configurations": cfgs.len(), "generations": n_b, "wall_s": t0.elapsed().as_secs_f64()}));
    for (c, m, r) in bad {
        rep.finding_raw(&c, &m, r);
    }

    // (c) degenerate knobs through the public fields, seeds and longer inputs
    let mut knob_cfgs: Vec<Cfg> = vec![];
    for p in 0..=5u8 {
        for rate in [f64::NAN, -1.0, 7.0, f64::INFINITY, f64::NEG_INFINITY, 0.0, 1.0] {
            for uns in [false, true] {
                knob_cfgs.push(Cfg::new(p).range(3, 12).flags(true, true).muts(&FULL, rate, uns));
            }
        }
        // interior rates with every mutator, safe and unsafe (long inputs make the gate draws arbitrary floats)
        for rate in [0.1, 0.5, 0.999] {
            for uns in [false, true] {
                knob_cfgs.push(Cfg::new(p).range(20, 60).flags(true, true).muts(&FULL, rate, uns));
            }
        }
        // the same mutator more than once
        let mut twice = FULL.to_vec();
        twice.extend_from_slice(&FULL);
        for rate in [0.5, 1.0] {
            for uns in [false, true] {
                knob_cfgs.push(Cfg::new(p).range(20, 60).flags(true, true).muts(&twice, rate, uns));
                knob_cfgs.push(Cfg::new(p).range(20, 60).flags(true, true).muts(&[Mk::Typeconfusion, Mk::Typeconfusion, Mk::Memoindex, Mk::Memoindex], rate, uns));
            }
        }
        knob_cfgs.push(Cfg::new(p).range(9, 2));
        knob_cfgs.push(Cfg::new(p).range(0, 1));
        knob_cfgs.push(Cfg::new(p).range(1000, 1000));
        knob_cfgs.push(Cfg::new(p).range(usize::MAX / 2 + 7, 3)); // min > max: T = min would never finish; skipped below
    }
    let long_inputs: Vec<Vec<u8>> = {
        let mut v: Vec<Vec<u8>> = vec![vec![], vec![0xff; 4096], (0..=255u8).cycle().take(3000).collect(), vec![0x80; 2048], vec![0x01; 1500]];
        for k in 0..32u32 {
            // deterministic pseudo-random 1 KiB inputs (xorshift), so that mixed opcode sequences with mutators are exercised
            let mut x = 0x9e3779b9u32 ^ k.wrapping_mul(0x85ebca6b);
            v.push((0..1024).map(|_| { x ^= x << 13; x ^= x >> 17; x ^= x << 5; (x >> 8) as u8 }).collect());
        }
        v
    };
    let knob_jobs: Vec<(Cfg, usize)> = knob_cfgs
        .iter()
        .filter(|c| c.min < 100_000)
        .flat_map(|c| (0..long_inputs.len()).map(move |i| (c.clone(), i)))
        .collect();
    let seeds: u64 = if quick { 40 } else { 2000 };
    let bad: Vec<(String, String, serde_json::Value)> = knob_jobs
        .par_iter()
        .filter_map(|(cfg, i)| {
            let r = run_bytes(cfg, &long_inputs[*i], false, false);
            judge(cfg, &r).map(|(c, m)| (c, format!("{m} on long input #{i}"), json!({"kind":"bytes","config":cfg.to_json(),"script_hex":lexer::hex(&long_inputs[*i])})))
        })
        .chain(knob_cfgs.par_iter().filter(|c| c.min < 100_000).flat_map_iter(|cfg| {
            (crate::report::sweep_base(seeds)..crate::report::sweep_base(seeds) + seeds).filter_map(move |s| {
                let r = run_seed(cfg, s, false);
                judge(cfg, &r).map(|(c, m)| (c, format!("{m} with seed {s}"), json!({"kind":"seed","config":cfg.to_json(),"seed":s})))
            })
        }))
        .collect();
    let n_knob = knob_jobs.len() as u64 + knob_cfgs.len() as u64 * seeds;
    rep.transitions += n_knob;
    rep.set("degenerate_knobs", json!({"configurations": knob_cfgs.len(), "long_inputs": long_inputs.len(), "seeds_per_configuration": seeds, "generations": n_knob,
        "rates": ["NaN", "-1", "7", "inf", "-inf", "0", "1"], "ranges": ["(3,12)", "(9,2)", "(0,1)", "(1000,1000)"]}));
    for (c, m, r) in bad {
        rep.finding_raw(&c, &m, r);
    }

    // (d) large opcode counts in child processes on a 2 MiB thread (the stack a rayon worker / spawned thread has)
    let t_big: Vec<usize> = vec![10_000, 30_000];
    let watchdog = Duration::from_secs(if quick { 60 } else { 180 });
    let mut child_jobs: Vec<(u8, usize, Vec<u8>, Vec<u8>, String, String)> = vec![];
    for p in 0..=5u8 {
        if quick && !(p == 0 || p == 2 || p == 5) {
            continue;
        }
        let noop = |_: &RunCtx| -> Vec<Finding> { vec![] };
        let ex = Explorer { base_cfg: Cfg::new(p).flags(true, true), opts: Opts::default(), monitor: &noop, xval_full: Default::default(), choice_discovery: Default::default() };
        for (first, repo, label) in STRATEGIES {
            let Some((first, repo)) = strategy_ops(p, first, repo) else { continue };
            match steady(&ex, first, repo) {
                Ok((prefix, unit)) => {
                    // confirm in-process (traced, small T) that the script really repeats the intended opcode
                    let mut data = prefix.clone();
                    for _ in 0..200 {
                        data.extend_from_slice(&unit);
                    }
                    let (_c, _r, tr) = ex.run(&data, 150);
                    let okrep = tr.steps.len() == 150 && tr.steps.iter().skip(1).all(|s| s.chosen == Some(repo));
                    if !okrep {
                        rep.machinery.push(format!("big-T script for P{p} {label} does not repeat {}", lexer::name(repo)));
                        continue;
                    }
                    for &t in &t_big {
                        for muts in ["none", "unsafe"] {
                            if muts == "unsafe" && (quick || first != b'N' || repo != b'N') {
                                continue;
                            }
                            child_jobs.push((p, t, prefix.clone(), unit.clone(), muts.to_string(), format!("P{p} T={t} {label} mutators={muts}")));
                        }
                    }
                }
                Err(e) => {
                    if verbose {
                        eprintln!("no steady script for P{p} {label}: {e}");
                    }
                    rep.set(&format!("skipped_bigT_P{p}_{}", lexer::name(repo)), json!(e));
                }
            }
        }
    }
    let results: Vec<ChildResult> = child_jobs.par_iter().map(|(p, t, pre, unit, muts, label)| run_child(*p, *t, pre, unit, 2048, muts, label, watchdog)).collect();
    let mut child_summ = vec![];
    for r in &results {
        rep.transitions += 1;
        child_summ.push(json!({"run": r.label, "ok": r.ok, "secs": r.secs, "detail": r.msg}));
        if !r.ok {
            if r.class.starts_with("machinery") {
                rep.machinery.push(format!("{}: {}", r.label, r.msg));
            } else {
                // class: failure mode + strategy (not T: a larger count of the same shape is the same defect)
                let strat = r.label.split(' ').nth(2).unwrap_or("?");
                rep.finding_raw(&format!("{}:{}", r.class, strat), &format!("{}: {}", r.label, r.msg), r.replay.clone());
            }
        }
    }
    rep.set("big_T_child_runs", json!(child_summ));
    rep.sample(json!({"input_hex": "ff07", "configs": "6 protocols x ranges (60,300),(0,0),(5,2),(1,1) x {no mutators, all 7 unsafe @0.5}", "oracle": "Ok, non-empty, no unwind"}));
    rep.sample(json!({"child": "P2 T=10000 always-TUPLE1 on a 2 MiB thread", "oracle": "exit 0 within the watchdog"}));
    rep.assumptions = vec![
        "termination is judged by a watchdog (60 s quick / 180 s thorough per 10k-30k opcode run); 'never loops forever' cannot be shown, only 'finishes on everything enumerated'".into(),
        "big-T runs use a 2 MiB thread stack (Rust's default for spawned threads, i.e. what batch mode's workers have)".into(),
        "the harness is built with overflow checks and debug assertions on, so arithmetic overflow in the crate shows up as a panic".into(),
    ];
    rep.finish(true, "alias-sensitive closure of all opcode sequences up to Lp; all byte strings of length <= 2 x configurations; degenerate knob grid; large-T strategies in child processes")
}

pub fn replay_child(v: &serde_json::Value) -> i32 {
    let argv: Vec<String> = v["argv"].as_array().map(|a| a.iter().map(|x| x.as_str().unwrap_or("").to_string()).collect()).unwrap_or_default();
    println!("re-running child: {}", argv.join(" "));
    let exe = std::env::current_exe().unwrap();
    match Command::new(exe).args(&argv).status() {
        Ok(st) if st.success() => {
            println!("child exit 0");
            0
        }
        Ok(st) => {
            println!("child failed: {st:?}");
            1
        }
        Err(e) => {
            println!("cannot spawn: {e}");
            2
        }
    }
}
