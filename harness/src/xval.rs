//! Binding of the reference artefacts to CPython: replay outputs through pickletools (py/xval.py).

use crate::explore::analyse;
use crate::report::verif_dir;
use std::io::Write;

pub struct XvalResult {
    pub validated: u64,
    pub errors: Vec<String>,
}

pub fn xval(tag: &str, outputs: &[Vec<u8>]) -> XvalResult {
    if outputs.is_empty() {
        return XvalResult { validated: 0, errors: vec![] };
    }
    let dir = format!("{}/target/xval", verif_dir());
    let _ = std::fs::create_dir_all(&dir);
    let path = format!("{dir}/{tag}-{}.bin", std::process::id());
    let mut buf: Vec<u8> = Vec::with_capacity(outputs.iter().map(|o| o.len() + 9).sum());
    for o in outputs {
        let (ops, m) = analyse(o);
        let l_ok = ops.is_ok();
        let m_ok = match (&ops, &m) {
            (Ok(_), Some(m)) => m.machine.dis_accepts(&m.reject),
            _ => false,
        };
        let nops = ops.as_ref().map(|(o, _)| o.len()).unwrap_or(0) as u32;
        buf.extend_from_slice(&(o.len() as u32).to_le_bytes());
        buf.extend_from_slice(o);
        buf.push((l_ok as u8) | ((m_ok as u8) << 1));
        buf.extend_from_slice(&nops.to_le_bytes());
    }
    if let Err(e) = std::fs::File::create(&path).and_then(|mut f| f.write_all(&buf)) {
        return XvalResult { validated: 0, errors: vec![format!("cannot write {path}: {e}")] };
    }
    let script = format!("{}/py/xval.py", verif_dir());
    let mut last_err = String::new();
    for py in ["python3-vt", "python3", "/usr/bin/python3"] {
        match std::process::Command::new(py).arg(&script).arg(&path).output() {
            Ok(out) if out.status.success() => {
                let _ = std::fs::remove_file(&path);
                let s = String::from_utf8_lossy(&out.stdout);
                let Ok(v) = serde_json::from_str::<serde_json::Value>(s.trim()) else {
                    return XvalResult { validated: 0, errors: vec![format!("xval.py output not JSON: {s}")] };
                };
                let mut errors = vec![];
                if v["has_memo_redefinition_rule"].as_bool() != Some(true) {
                    errors.push(format!("{py}: pickletools lacks the 'memo key already defined' rule (python {})", v["python"]));
                }
                if v["disagreements"].as_u64().unwrap_or(1) != 0 {
                    errors.push(format!("reference artefacts disagree with pickletools: {}", v["first"]));
                }
                return XvalResult { validated: v["validated"].as_u64().unwrap_or(0), errors };
            }
            Ok(out) => last_err = format!("{py}: exit {:?}: {}", out.status.code(), String::from_utf8_lossy(&out.stderr)),
            Err(e) => last_err = format!("{py}: {e}"),
        }
    }
    let _ = std::fs::remove_file(&path);
    XvalResult { validated: 0, errors: vec![format!("could not run xval.py: {last_err}")] }
}
