//! Reference lexer `L`: the opcode table of CPython's `pickletools` (3.11),
//! transcribed from the pickle format documentation, not from /repo/src.
//!
//! Two classes of errors are distinguished:
//! * `Malformed`  — `pickletools.genops` raises on the same input (conformance is checked by xval.py),
//! * `Domain`     — argument decodes but is outside the domain the format allows
//!                  (EXT code < 1, negative decimal memo index); `genops` does not check these.

#[derive(Clone, Copy, Debug, PartialEq, Eq)]
pub enum ArgKind {
    None,
    Uint1,
    Uint2,
    Int4,
    Uint4,
    Uint8,
    DecimalnlShort,
    DecimalnlLong,
    Long1,
    Long4,
    Stringnl,
    StringnlNoescape,
    StringnlNoescapePair,
    String1,
    String4,
    Bytes1,
    Bytes4,
    Bytes8,
    Bytearray8,
    Unicodestringnl,
    Unicodestring1,
    Unicodestring4,
    Unicodestring8,
    Floatnl,
    Float8,
}

#[derive(Clone, Copy, Debug)]
pub struct OpInfo {
    pub code: u8,
    pub name: &'static str,
    pub arg: ArgKind,
    pub proto: u8,
}

use ArgKind as A;

pub const OPS: [OpInfo; 68] = [
    OpInfo { code: b'I', name: "INT", arg: A::DecimalnlShort, proto: 0 },
    OpInfo { code: b'J', name: "BININT", arg: A::Int4, proto: 1 },
    OpInfo { code: b'K', name: "BININT1", arg: A::Uint1, proto: 1 },
    OpInfo { code: b'M', name: "BININT2", arg: A::Uint2, proto: 1 },
    OpInfo { code: b'L', name: "LONG", arg: A::DecimalnlLong, proto: 0 },
    OpInfo { code: 0x8a, name: "LONG1", arg: A::Long1, proto: 2 },
    OpInfo { code: 0x8b, name: "LONG4", arg: A::Long4, proto: 2 },
    OpInfo { code: b'S', name: "STRING", arg: A::Stringnl, proto: 0 },
    OpInfo { code: b'T', name: "BINSTRING", arg: A::String4, proto: 1 },
    OpInfo { code: b'U', name: "SHORT_BINSTRING", arg: A::String1, proto: 1 },
    OpInfo { code: b'B', name: "BINBYTES", arg: A::Bytes4, proto: 3 },
    OpInfo { code: b'C', name: "SHORT_BINBYTES", arg: A::Bytes1, proto: 3 },
    OpInfo { code: 0x8e, name: "BINBYTES8", arg: A::Bytes8, proto: 4 },
    OpInfo { code: 0x96, name: "BYTEARRAY8", arg: A::Bytearray8, proto: 5 },
    OpInfo { code: 0x97, name: "NEXT_BUFFER", arg: A::None, proto: 5 },
    OpInfo { code: 0x98, name: "READONLY_BUFFER", arg: A::None, proto: 5 },
    OpInfo { code: b'N', name: "NONE", arg: A::None, proto: 0 },
    OpInfo { code: 0x88, name: "NEWTRUE", arg: A::None, proto: 2 },
    OpInfo { code: 0x89, name: "NEWFALSE", arg: A::None, proto: 2 },
    OpInfo { code: b'V', name: "UNICODE", arg: A::Unicodestringnl, proto: 0 },
    OpInfo { code: 0x8c, name: "SHORT_BINUNICODE", arg: A::Unicodestring1, proto: 4 },
    OpInfo { code: b'X', name: "BINUNICODE", arg: A::Unicodestring4, proto: 1 },
    OpInfo { code: 0x8d, name: "BINUNICODE8", arg: A::Unicodestring8, proto: 4 },
    OpInfo { code: b'F', name: "FLOAT", arg: A::Floatnl, proto: 0 },
    OpInfo { code: b'G', name: "BINFLOAT", arg: A::Float8, proto: 1 },
    OpInfo { code: b']', name: "EMPTY_LIST", arg: A::None, proto: 1 },
    OpInfo { code: b'a', name: "APPEND", arg: A::None, proto: 0 },
    OpInfo { code: b'e', name: "APPENDS", arg: A::None, proto: 1 },
    OpInfo { code: b'l', name: "LIST", arg: A::None, proto: 0 },
    OpInfo { code: b')', name: "EMPTY_TUPLE", arg: A::None, proto: 1 },
    OpInfo { code: b't', name: "TUPLE", arg: A::None, proto: 0 },
    OpInfo { code: 0x85, name: "TUPLE1", arg: A::None, proto: 2 },
    OpInfo { code: 0x86, name: "TUPLE2", arg: A::None, proto: 2 },
    OpInfo { code: 0x87, name: "TUPLE3", arg: A::None, proto: 2 },
    OpInfo { code: b'}', name: "EMPTY_DICT", arg: A::None, proto: 1 },
    OpInfo { code: b'd', name: "DICT", arg: A::None, proto: 0 },
    OpInfo { code: b's', name: "SETITEM", arg: A::None, proto: 0 },
    OpInfo { code: b'u', name: "SETITEMS", arg: A::None, proto: 1 },
    OpInfo { code: 0x8f, name: "EMPTY_SET", arg: A::None, proto: 4 },
    OpInfo { code: 0x90, name: "ADDITEMS", arg: A::None, proto: 4 },
    OpInfo { code: 0x91, name: "FROZENSET", arg: A::None, proto: 4 },
    OpInfo { code: b'0', name: "POP", arg: A::None, proto: 0 },
    OpInfo { code: b'2', name: "DUP", arg: A::None, proto: 0 },
    OpInfo { code: b'(', name: "MARK", arg: A::None, proto: 0 },
    OpInfo { code: b'1', name: "POP_MARK", arg: A::None, proto: 1 },
    OpInfo { code: b'g', name: "GET", arg: A::DecimalnlShort, proto: 0 },
    OpInfo { code: b'h', name: "BINGET", arg: A::Uint1, proto: 1 },
    OpInfo { code: b'j', name: "LONG_BINGET", arg: A::Uint4, proto: 1 },
    OpInfo { code: b'p', name: "PUT", arg: A::DecimalnlShort, proto: 0 },
    OpInfo { code: b'q', name: "BINPUT", arg: A::Uint1, proto: 1 },
    OpInfo { code: b'r', name: "LONG_BINPUT", arg: A::Uint4, proto: 1 },
    OpInfo { code: 0x94, name: "MEMOIZE", arg: A::None, proto: 4 },
    OpInfo { code: 0x82, name: "EXT1", arg: A::Uint1, proto: 2 },
    OpInfo { code: 0x83, name: "EXT2", arg: A::Uint2, proto: 2 },
    OpInfo { code: 0x84, name: "EXT4", arg: A::Int4, proto: 2 },
    OpInfo { code: b'c', name: "GLOBAL", arg: A::StringnlNoescapePair, proto: 0 },
    OpInfo { code: 0x93, name: "STACK_GLOBAL", arg: A::None, proto: 4 },
    OpInfo { code: b'R', name: "REDUCE", arg: A::None, proto: 0 },
    OpInfo { code: b'b', name: "BUILD", arg: A::None, proto: 0 },
    OpInfo { code: b'i', name: "INST", arg: A::StringnlNoescapePair, proto: 0 },
    OpInfo { code: b'o', name: "OBJ", arg: A::None, proto: 1 },
    OpInfo { code: 0x81, name: "NEWOBJ", arg: A::None, proto: 2 },
    OpInfo { code: 0x92, name: "NEWOBJ_EX", arg: A::None, proto: 4 },
    OpInfo { code: 0x80, name: "PROTO", arg: A::Uint1, proto: 2 },
    OpInfo { code: b'.', name: "STOP", arg: A::None, proto: 0 },
    OpInfo { code: 0x95, name: "FRAME", arg: A::Uint8, proto: 4 },
    OpInfo { code: b'P', name: "PERSID", arg: A::StringnlNoescape, proto: 0 },
    OpInfo { code: b'Q', name: "BINPERSID", arg: A::None, proto: 1 },
];

pub fn info(code: u8) -> Option<&'static OpInfo> {
    OPS.iter().find(|o| o.code == code)
}

pub fn name(code: u8) -> &'static str {
    info(code).map(|o| o.name).unwrap_or("?")
}

/// all opcode codes introduced in protocol <= p (the "vocabulary" of p)
pub fn vocabulary(p: u8) -> Vec<u8> {
    OPS.iter().filter(|o| o.proto <= p).map(|o| o.code).collect()
}

/// numeric argument of an opcode occurrence (memo index, EXT code, PROTO, FRAME), if it has one
#[derive(Clone, Debug, PartialEq)]
pub enum ArgVal {
    None,
    /// unsigned or signed integer argument (decimal memo index, uintN, int4)
    Int(i128),
    /// payload length for the length-prefixed / line arguments
    Payload(usize),
    /// true if INT argument was the literal 00 / 01
    BoolLit(bool),
}

#[derive(Clone, Debug)]
pub struct Op {
    pub code: u8,
    pub pos: usize,
    /// position one past the last byte of this opcode (including argument)
    pub end: usize,
    pub arg: ArgVal,
}

#[derive(Clone, Debug, PartialEq)]
pub enum LexErrKind {
    Malformed,
    Domain,
}

#[derive(Clone, Debug)]
pub struct LexErr {
    pub kind: LexErrKind,
    pub pos: usize,
    pub msg: String,
}

fn malformed<T>(pos: usize, msg: impl Into<String>) -> Result<T, LexErr> {
    Err(LexErr { kind: LexErrKind::Malformed, pos, msg: msg.into() })
}

/// read a `\n`-terminated line starting at `at`; returns (line without newline, next position)
fn read_line(buf: &[u8], at: usize, pos: usize) -> Result<(&[u8], usize), LexErr> {
    match buf[at..].iter().position(|&b| b == b'\n') {
        Some(i) => Ok((&buf[at..at + i], at + i + 1)),
        None => malformed(pos, "no newline found when trying to read a line argument"),
    }
}

/// Python `int(s)` for bytes/str input: optional surrounding whitespace, optional sign,
/// decimal digits with single underscores between digits.
fn python_int(s: &[u8]) -> Option<i128> {
    let ws = |b: u8| matches!(b, b' ' | b'\t' | b'\n' | b'\r' | 0x0b | 0x0c);
    let mut i = 0;
    let mut j = s.len();
    while i < j && ws(s[i]) {
        i += 1;
    }
    while j > i && ws(s[j - 1]) {
        j -= 1;
    }
    let s = &s[i..j];
    if s.is_empty() {
        return None;
    }
    let (neg, digits) = match s[0] {
        b'-' => (true, &s[1..]),
        b'+' => (false, &s[1..]),
        _ => (false, s),
    };
    if digits.is_empty() {
        return None;
    }
    let mut v: i128 = 0;
    let mut prev_us = true; // leading underscore not allowed
    for (k, &c) in digits.iter().enumerate() {
        if c == b'_' {
            if prev_us || k + 1 == digits.len() {
                return None;
            }
            prev_us = true;
            continue;
        }
        if !c.is_ascii_digit() {
            return None;
        }
        prev_us = false;
        v = v.checked_mul(10)?.checked_add((c - b'0') as i128)?;
    }
    Some(if neg { -v } else { v })
}

/// Python `float(s)` grammar for ASCII input
pub fn python_float_ok(s: &[u8]) -> bool {
    let ws = |b: u8| matches!(b, b' ' | b'\t' | b'\n' | b'\r' | 0x0b | 0x0c);
    let mut i = 0;
    let mut j = s.len();
    while i < j && ws(s[i]) {
        i += 1;
    }
    while j > i && ws(s[j - 1]) {
        j -= 1;
    }
    let s = &s[i..j];
    if s.is_empty() {
        return false;
    }
    let body = match s[0] {
        b'+' | b'-' => &s[1..],
        _ => s,
    };
    let lower: Vec<u8> = body.iter().map(|b| b.to_ascii_lowercase()).collect();
    if lower == b"inf" || lower == b"infinity" || lower == b"nan" {
        return true;
    }
    // digitpart: digit (["_"] digit)*
    fn digitpart(s: &[u8], mut i: usize) -> Option<usize> {
        if i >= s.len() || !s[i].is_ascii_digit() {
            return None;
        }
        i += 1;
        loop {
            if i < s.len() && s[i].is_ascii_digit() {
                i += 1;
            } else if i + 1 < s.len() && s[i] == b'_' && s[i + 1].is_ascii_digit() {
                i += 2;
            } else {
                return Some(i);
            }
        }
    }
    let mut i = 0;
    let mut have_digits = false;
    if let Some(n) = digitpart(body, i) {
        i = n;
        have_digits = true;
    }
    if i < body.len() && body[i] == b'.' {
        i += 1;
        if let Some(n) = digitpart(body, i) {
            i = n;
            have_digits = true;
        }
    }
    if !have_digits {
        return false;
    }
    if i < body.len() && (body[i] == b'e' || body[i] == b'E') {
        i += 1;
        if i < body.len() && (body[i] == b'+' || body[i] == b'-') {
            i += 1;
        }
        match digitpart(body, i) {
            Some(n) => i = n,
            None => return false,
        }
    }
    i == body.len()
}

/// `codecs.escape_decode(data)[0].decode("ascii")` succeeds?
fn escape_decode_ascii_ok(data: &[u8]) -> bool {
    let mut i = 0;
    while i < data.len() {
        let c = data[i];
        if c != b'\\' {
            if c >= 0x80 {
                return false;
            }
            i += 1;
            continue;
        }
        i += 1;
        if i >= data.len() {
            return false; // trailing backslash
        }
        match data[i] {
            b'\n' | b'\\' | b'\'' | b'"' | b'b' | b'f' | b't' | b'n' | b'r' | b'v' | b'a' => i += 1,
            b'0'..=b'7' => {
                // up to three octal digits
                let mut v: u32 = 0;
                let mut n = 0;
                while n < 3 && i < data.len() && (b'0'..=b'7').contains(&data[i]) {
                    v = v * 8 + (data[i] - b'0') as u32;
                    i += 1;
                    n += 1;
                }
                if (v & 0xff) >= 0x80 {
                    return false; // non-ascii after decoding
                }
            }
            b'x' => {
                if i + 2 < data.len() + 0 && i + 2 <= data.len() - 0 && data.len() >= i + 3
                    && data[i + 1].is_ascii_hexdigit()
                    && data[i + 2].is_ascii_hexdigit()
                {
                    let h = |b: u8| (b as char).to_digit(16).unwrap();
                    let v = h(data[i + 1]) * 16 + h(data[i + 2]);
                    if v >= 0x80 {
                        return false;
                    }
                    i += 3;
                } else {
                    return false; // invalid \x escape
                }
            }
            other => {
                // unknown escape: backslash is kept, then the character itself
                if other >= 0x80 {
                    return false;
                }
                i += 1;
            }
        }
    }
    true
}

/// `str(data, "raw-unicode-escape")` succeeds?
fn raw_unicode_escape_ok(data: &[u8]) -> bool {
    let mut i = 0;
    while i < data.len() {
        if data[i] != b'\\' {
            i += 1;
            continue;
        }
        // count backslashes
        let start = i;
        while i < data.len() && data[i] == b'\\' {
            i += 1;
        }
        let n = i - start;
        if n % 2 == 1 && i < data.len() && (data[i] == b'u' || data[i] == b'U') {
            let want = if data[i] == b'u' { 4 } else { 8 };
            let digits = &data[i + 1..];
            if digits.len() < want || !digits[..want].iter().all(|b| b.is_ascii_hexdigit()) {
                return false;
            }
            let v = u32::from_str_radix(std::str::from_utf8(&digits[..want]).unwrap(), 16).unwrap();
            if v > 0x10ffff {
                return false;
            }
            i += 1 + want;
        }
    }
    true
}

fn need(buf: &[u8], at: usize, n: usize, pos: usize, what: &str) -> Result<(), LexErr> {
    if buf.len() < at || buf.len() - at < n {
        return malformed(pos, format!("not enough data for {what}: need {n}, have {}", buf.len().saturating_sub(at)));
    }
    Ok(())
}

/// decode one opcode at `pos`
pub fn lex_one(buf: &[u8], pos: usize) -> Result<Op, LexErr> {
    let code = buf[pos];
    let Some(inf) = info(code) else {
        return malformed(pos, format!("unknown opcode byte 0x{code:02x}"));
    };
    let a = pos + 1;
    let le = |n: usize| -> u64 {
        let mut v = 0u64;
        for k in 0..n {
            v |= (buf[a + k] as u64) << (8 * k);
        }
        v
    };
    let (arg, end) = match inf.arg {
        A::None => (ArgVal::None, a),
        A::Uint1 => {
            need(buf, a, 1, pos, "uint1")?;
            (ArgVal::Int(le(1) as i128), a + 1)
        }
        A::Uint2 => {
            need(buf, a, 2, pos, "uint2")?;
            (ArgVal::Int(le(2) as i128), a + 2)
        }
        A::Int4 => {
            need(buf, a, 4, pos, "int4")?;
            (ArgVal::Int(le(4) as u32 as i32 as i128), a + 4)
        }
        A::Uint4 => {
            need(buf, a, 4, pos, "uint4")?;
            (ArgVal::Int(le(4) as i128), a + 4)
        }
        A::Uint8 => {
            need(buf, a, 8, pos, "uint8")?;
            (ArgVal::Int(le(8) as i128), a + 8)
        }
        A::Float8 => {
            need(buf, a, 8, pos, "float8")?;
            (ArgVal::None, a + 8)
        }
        A::DecimalnlShort => {
            let (line, next) = read_line(buf, a, pos)?;
            if code == b'I' && line == b"00" {
                (ArgVal::BoolLit(false), next)
            } else if code == b'I' && line == b"01" {
                (ArgVal::BoolLit(true), next)
            } else {
                match python_int(line) {
                    Some(v) => (ArgVal::Int(v), next),
                    None => return malformed(pos, format!("invalid decimal literal {:?}", String::from_utf8_lossy(line))),
                }
            }
        }
        A::DecimalnlLong => {
            let (line, next) = read_line(buf, a, pos)?;
            let l = if line.last() == Some(&b'L') { &line[..line.len() - 1] } else { line };
            match python_int(l) {
                Some(v) => (ArgVal::Int(v), next),
                None => return malformed(pos, format!("invalid long literal {:?}", String::from_utf8_lossy(line))),
            }
        }
        A::Floatnl => {
            let (line, next) = read_line(buf, a, pos)?;
            if !python_float_ok(line) {
                return malformed(pos, format!("invalid float literal {:?}", String::from_utf8_lossy(line)));
            }
            (ArgVal::Payload(line.len()), next)
        }
        A::Long1 => {
            need(buf, a, 1, pos, "long1 size")?;
            let n = le(1) as usize;
            need(buf, a + 1, n, pos, "long1 payload")?;
            (ArgVal::Payload(n), a + 1 + n)
        }
        A::Long4 => {
            need(buf, a, 4, pos, "long4 size")?;
            let n = le(4) as u32 as i32;
            if n < 0 {
                return malformed(pos, format!("long4 byte count < 0: {n}"));
            }
            need(buf, a + 4, n as usize, pos, "long4 payload")?;
            (ArgVal::Payload(n as usize), a + 4 + n as usize)
        }
        A::Stringnl => {
            let (line, next) = read_line(buf, a, pos)?;
            let q = line.first().copied();
            if q != Some(b'"') && q != Some(b'\'') {
                return malformed(pos, "no string quotes around STRING argument");
            }
            if line.last().copied() != q {
                return malformed(pos, "string quote not found at both ends");
            }
            // CPython: data[1:-1] (a single quote character alone yields the empty string)
            let inner: &[u8] = if line.len() >= 2 { &line[1..line.len() - 1] } else { &[] };
            if !escape_decode_ascii_ok(inner) {
                return malformed(pos, "STRING argument is not a valid escaped ASCII literal");
            }
            (ArgVal::Payload(inner.len()), next)
        }
        A::StringnlNoescape => {
            let (line, next) = read_line(buf, a, pos)?;
            if !escape_decode_ascii_ok(line) {
                return malformed(pos, "line argument is not escape-decodable ASCII");
            }
            (ArgVal::Payload(line.len()), next)
        }
        A::StringnlNoescapePair => {
            let (l1, n1) = read_line(buf, a, pos)?;
            if !escape_decode_ascii_ok(l1) {
                return malformed(pos, "module line is not escape-decodable ASCII");
            }
            let (l2, n2) = read_line(buf, n1, pos)?;
            if !escape_decode_ascii_ok(l2) {
                return malformed(pos, "name line is not escape-decodable ASCII");
            }
            (ArgVal::Payload(l1.len() + l2.len()), n2)
        }
        A::Unicodestringnl => {
            let (line, next) = read_line(buf, a, pos)?;
            if !raw_unicode_escape_ok(line) {
                return malformed(pos, "UNICODE argument is not valid raw-unicode-escape");
            }
            (ArgVal::Payload(line.len()), next)
        }
        A::String1 | A::Bytes1 | A::Unicodestring1 => {
            need(buf, a, 1, pos, "1-byte length")?;
            let n = le(1) as usize;
            need(buf, a + 1, n, pos, "payload")?;
            if inf.arg == A::Unicodestring1 && !utf8_surrogatepass_ok(&buf[a + 1..a + 1 + n]) {
                return malformed(pos, "payload is not UTF-8");
            }
            (ArgVal::Payload(n), a + 1 + n)
        }
        A::String4 => {
            need(buf, a, 4, pos, "4-byte length")?;
            let n = le(4) as u32 as i32;
            if n < 0 {
                return malformed(pos, format!("string4 byte count < 0: {n}"));
            }
            need(buf, a + 4, n as usize, pos, "payload")?;
            (ArgVal::Payload(n as usize), a + 4 + n as usize)
        }
        A::Bytes4 | A::Unicodestring4 => {
            need(buf, a, 4, pos, "4-byte length")?;
            let n = le(4) as usize;
            need(buf, a + 4, n, pos, "payload")?;
            if inf.arg == A::Unicodestring4 && !utf8_surrogatepass_ok(&buf[a + 4..a + 4 + n]) {
                return malformed(pos, "payload is not UTF-8");
            }
            (ArgVal::Payload(n), a + 4 + n)
        }
        A::Bytes8 | A::Bytearray8 | A::Unicodestring8 => {
            need(buf, a, 8, pos, "8-byte length")?;
            let n64 = le(8);
            if n64 > (usize::MAX >> 1) as u64 {
                return malformed(pos, "8-byte length exceeds sys.maxsize");
            }
            let n = n64 as usize;
            need(buf, a + 8, n, pos, "payload")?;
            if inf.arg == A::Unicodestring8 && !utf8_surrogatepass_ok(&buf[a + 8..a + 8 + n]) {
                return malformed(pos, "payload is not UTF-8");
            }
            (ArgVal::Payload(n), a + 8 + n)
        }
    };
    Ok(Op { code, pos, end, arg })
}

/// UTF-8 validity with CPython's "surrogatepass" error handler (lone surrogates encoded as 3 bytes are accepted)
fn utf8_surrogatepass_ok(b: &[u8]) -> bool {
    if std::str::from_utf8(b).is_ok() {
        return true;
    }
    let mut i = 0;
    while i < b.len() {
        let c = b[i];
        let (n, min) = if c < 0x80 {
            (1, 0)
        } else if (0xc2..=0xdf).contains(&c) {
            (2, 0x80)
        } else if (0xe0..=0xef).contains(&c) {
            (3, 0x800)
        } else if (0xf0..=0xf4).contains(&c) {
            (4, 0x10000)
        } else {
            return false;
        };
        if i + n > b.len() {
            return false;
        }
        let mut v: u32 = match n {
            1 => c as u32,
            2 => (c & 0x1f) as u32,
            3 => (c & 0x0f) as u32,
            _ => (c & 0x07) as u32,
        };
        for k in 1..n {
            if b[i + k] & 0xc0 != 0x80 {
                return false;
            }
            v = (v << 6) | (b[i + k] & 0x3f) as u32;
        }
        if v < min || v > 0x10ffff {
            return false;
        }
        i += n;
    }
    true
}

/// Decode a whole pickle the way `pickletools.genops` does: opcodes until (and including) the first STOP.
/// Returns the ops and the position after STOP.
pub fn genops(buf: &[u8]) -> Result<(Vec<Op>, usize), LexErr> {
    let mut ops = Vec::new();
    let mut pos = 0;
    loop {
        if pos >= buf.len() {
            return malformed(pos, "pickle exhausted before seeing STOP");
        }
        let op = lex_one(buf, pos)?;
        pos = op.end;
        let stop = op.code == b'.';
        ops.push(op);
        if stop {
            return Ok((ops, pos));
        }
    }
}

/// Domain rules of C04 beyond `genops`: EXT codes >= 1, non-negative decimal memo indices.
pub fn domain_check(ops: &[Op]) -> Result<(), LexErr> {
    for op in ops {
        match (op.code, &op.arg) {
            (0x82 | 0x83 | 0x84, ArgVal::Int(v)) if *v < 1 => {
                return Err(LexErr {
                    kind: LexErrKind::Domain,
                    pos: op.pos,
                    msg: format!("{} code {} is not >= 1", name(op.code), v),
                })
            }
            (b'g' | b'p', ArgVal::Int(v)) if *v < 0 => {
                return Err(LexErr {
                    kind: LexErrKind::Domain,
                    pos: op.pos,
                    msg: format!("{} memo index {} is negative", name(op.code), v),
                })
            }
            _ => {}
        }
    }
    Ok(())
}

pub fn disasm(buf: &[u8]) -> String {
    let mut s = String::new();
    let mut pos = 0;
    while pos < buf.len() {
        match lex_one(buf, pos) {
            Ok(op) => {
                s.push_str(&format!("{:5}: {:02x} {:<16} {:?}\n", op.pos, op.code, name(op.code), op.arg));
                pos = op.end;
            }
            Err(e) => {
                s.push_str(&format!("{:5}: <{}>\n", pos, e.msg));
                break;
            }
        }
    }
    s
}

pub fn hex(b: &[u8]) -> String {
    b.iter().map(|x| format!("{x:02x}")).collect()
}

pub fn unhex(s: &str) -> Vec<u8> {
    (0..s.len() / 2).map(|i| u8::from_str_radix(&s[2 * i..2 * i + 2], 16).unwrap()).collect()
}
