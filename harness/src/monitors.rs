//! Oracles: pure functions of one complete run (trace + output).

use crate::explore::{Finding, RunCtx};
use crate::lexer::{self, ArgVal};
use crate::refm::Kind;
use pickle_fuzzer::verif::tag;

fn f(prop: &'static str, class: impl Into<String>, msg: impl Into<String>) -> Finding {
    Finding { prop, class: class.into(), msg: msg.into() }
}

/// first word(s) of a message, digits removed — a stable rule name
fn rule(msg: &str) -> String {
    msg.chars().filter(|c| !c.is_ascii_digit()).collect::<String>().split_whitespace().take(6).collect::<Vec<_>>().join("_")
}

/// C09 (also used as a guard by every other monitor): Ok, non-empty, no panic
pub fn c09(ctx: &RunCtx) -> Vec<Finding> {
    let mut v = vec![];
    if let Some(p) = &ctx.res.panic {
        v.push(f("C09", format!("panic:{}", rule(p)), format!("generation panicked: {p}")));
    } else if let Err(e) = &ctx.res.out {
        v.push(f("C09", format!("err:{}", rule(e)), format!("generation returned Err: {e}")));
    } else if ctx.res.bytes().map(|b| b.is_empty()).unwrap_or(true) {
        v.push(f("C09", "empty", "generation returned an empty byte string"));
    }
    v
}

/// C01: accepted by the symbolic stack check
pub fn c01(ctx: &RunCtx) -> Vec<Finding> {
    let mut v = vec![];
    if let (Some(out), Err(e)) = (ctx.res.bytes(), ctx.ops) {
        // the reference disassembler cannot accept a stream it cannot decode
        v.push(f(
            "C01",
            format!("undecodable:{}", out.get(e.pos).map(|c| lexer::name(*c)).unwrap_or("eof")),
            format!("the disassembler cannot decode the output at byte {}: {}", e.pos, e.msg),
        ));
        return v;
    }
    let (Ok((ops, end)), Some(m)) = (ctx.ops, ctx.m) else { return v };
    if let Some(r) = &m.reject {
        v.push(f(
            "C01",
            format!("{}:{}", lexer::name(r.code), rule(&r.msg)),
            format!("reference machine rejects at byte {} ({}): {}", r.pos, lexer::name(r.code), r.msg),
        ));
    } else if !m.machine.stopped {
        v.push(f("C01", "no-stop", "no STOP executed"));
    }
    let _ = (ops, end);
    v
}

/// C02: memo discipline
pub fn c02(ctx: &RunCtx) -> Vec<Finding> {
    let mut v = vec![];
    let Some(m) = ctx.m else { return v };
    for mv in &m.machine.memo_violations {
        v.push(f(
            "C02",
            format!("{}:{}", lexer::name(mv.code), rule(&mv.msg)),
            format!("at byte {} ({}): {}", mv.pos, lexer::name(mv.code), mv.msg),
        ));
    }
    v
}

/// C03: operand kinds
pub fn c03(ctx: &RunCtx) -> Vec<Finding> {
    let mut v = vec![];
    let Some(m) = ctx.m else { return v };
    for kv in &m.machine.kind_violations {
        v.push(f(
            "C03",
            format!("{}:{}", lexer::name(kv.code), rule(&kv.msg)),
            format!("at byte {} ({}): {}", kv.pos, lexer::name(kv.code), kv.msg),
        ));
    }
    v
}

/// C04: well-formed opcode stream, one STOP, last byte
pub fn c04(ctx: &RunCtx) -> Vec<Finding> {
    let mut v = vec![];
    let Some(out) = ctx.res.bytes() else { return v };
    match ctx.ops {
        Err(e) => v.push(f(
            "C04",
            format!("lex:{}:{}", out.get(e.pos).map(|c| lexer::name(*c)).unwrap_or("eof"), rule(&e.msg)),
            format!("output does not decode at byte {}: {}", e.pos, e.msg),
        )),
        Ok((ops, end)) => {
            if *end != out.len() {
                v.push(f("C04", "bytes-after-stop", format!("first STOP ends at {end} but output has {} bytes", out.len())));
            }
            if let Err(e) = lexer::domain_check(ops) {
                v.push(f("C04", format!("domain:{}", rule(&e.msg)), format!("at byte {}: {}", e.pos, e.msg)));
            }
        }
    }
    v
}

/// C05: protocol compliance and header
pub fn c05(ctx: &RunCtx) -> Vec<Finding> {
    let mut v = vec![];
    let Some(out) = ctx.res.bytes() else { return v };
    let Ok((ops, _)) = ctx.ops else { return v };
    let p = ctx.cfg.proto;
    for (i, op) in ops.iter().enumerate() {
        let inf = lexer::info(op.code).unwrap();
        if inf.proto > p {
            v.push(f(
                "C05",
                format!("newer-opcode:{}", inf.name),
                format!("opcode {} (protocol {}) at byte {} in a protocol-{} pickle", inf.name, inf.proto, op.pos, p),
            ));
        }
        if op.code == 0x80 {
            if p < 2 {
                v.push(f("C05", "proto-in-old", format!("PROTO in a protocol-{p} pickle")));
            } else if i != 0 {
                v.push(f("C05", "proto-not-first", format!("PROTO at opcode index {i}")));
            } else if op.arg != ArgVal::Int(p as i128) {
                v.push(f("C05", "proto-arg", format!("PROTO argument {:?} != {p}", op.arg)));
            }
        }
    }
    if p >= 2 && ops.first().map(|o| o.code) != Some(0x80) {
        v.push(f("C05", "proto-missing", format!("protocol-{p} pickle does not start with PROTO")));
    }
    if p == 0 {
        if let Some(i) = out.iter().position(|b| *b >= 0x80) {
            v.push(f("C05", "non-ascii-p0", format!("protocol-0 pickle has byte 0x{:02x} at {i}", out[i])));
        }
    }
    v
}

/// C06: FRAME unique, right after PROTO, spans exactly the rest
pub fn c06(ctx: &RunCtx) -> Vec<Finding> {
    let mut v = vec![];
    let Some(out) = ctx.res.bytes() else { return v };
    let Ok((ops, _)) = ctx.ops else { return v };
    let frames: Vec<usize> = ops.iter().enumerate().filter(|(_, o)| o.code == 0x95).map(|(i, _)| i).collect();
    if ctx.cfg.proto < 4 {
        if !frames.is_empty() {
            v.push(f("C06", "frame-in-old", format!("FRAME in a protocol-{} pickle", ctx.cfg.proto)));
        }
        return v;
    }
    if frames.len() > 1 {
        v.push(f("C06", "frame-multiple", format!("{} FRAME opcodes", frames.len())));
    }
    if let Some(&i) = frames.first() {
        if i != 1 || ops[0].code != 0x80 {
            v.push(f("C06", "frame-position", format!("FRAME at opcode index {i}, not directly after PROTO")));
        }
        let op = &ops[i];
        let want = (out.len() - op.end) as i128;
        if op.arg != ArgVal::Int(want) {
            v.push(f("C06", "frame-length", format!("FRAME length {:?} but {} bytes follow its argument", op.arg, want)));
        }
    }
    // the coin must be honoured: the trace says whether a frame was requested
    if let Some(uf) = ctx.tr.use_frame {
        if uf != !frames.is_empty() && ctx.cfg.mutators.is_empty() {
            v.push(f("C06", "frame-coin", format!("frame requested={uf} but FRAME present={}", !frames.is_empty())));
        }
    }
    v
}

/// C10: opt-in opcodes
pub fn c10(ctx: &RunCtx) -> Vec<Finding> {
    let mut v = vec![];
    let Ok((ops, _)) = ctx.ops else { return v };
    for op in ops {
        let ext = matches!(op.code, 0x82 | 0x83 | 0x84);
        let buf = matches!(op.code, 0x97 | 0x98);
        if ext && !ctx.cfg.ext {
            v.push(f("C10", format!("ext-without-flag:{}", lexer::name(op.code)), format!("{} at byte {} without allow_ext", lexer::name(op.code), op.pos)));
        }
        if buf && !ctx.cfg.buffer {
            v.push(f("C10", format!("buffer-without-flag:{}", lexer::name(op.code)), format!("{} at byte {} without allow_buffer", lexer::name(op.code), op.pos)));
        }
    }
    v
}

pub fn compat(gen_tag: u8, k: Kind) -> bool {
    use Kind::*;
    if gen_tag == tag::MARK || k == Mark {
        return gen_tag == tag::MARK && k == Mark;
    }
    if k == Any {
        return true;
    }
    match gen_tag {
        tag::INT | tag::BOOL => matches!(k, Int | Bool),
        tag::FLOAT => k == Float,
        tag::NONE => k == None,
        tag::BYTES => matches!(k, Bytes | StrOrBytes | Buffer),
        tag::BYTEARRAY => k == ByteArray,
        tag::STRING => matches!(k, Str | StrOrBytes),
        tag::LIST => k == List,
        tag::TUPLE => k == Tuple,
        tag::DICT => k == Dict,
        tag::SET => k == Set,
        tag::FROZENSET => k == FrozenSet,
        tag::CALLABLE | tag::GLOBAL => k == Callable,
        tag::INSTANCE => k == Object,
        // the generator's own "unknown" placeholders (unused today) claim nothing about the kind
        tag::ANY | tag::EXTENSION => true,
        _ => false,
    }
}

/// C17: simulated state mirrors the reference machine at every observed point
pub fn c17(ctx: &RunCtx) -> Vec<Finding> {
    let mut v = vec![];
    let (Ok((ops, _)), Some(m)) = (ctx.ops, ctx.m) else { return v };
    let boundary_state = |out_len: usize| -> Option<(Vec<Kind>, Vec<i128>)> {
        if out_len == 0 {
            return Some((vec![], vec![]));
        }
        m.trace.iter().find(|(e, _, _)| *e == out_len).map(|(_, s, n)| {
            let mut keys: Vec<i128> = m.machine.memo_order[..*n].to_vec();
            keys.sort_unstable();
            (s.clone(), keys)
        })
    };
    let last_traced = m.trace.last().map(|t| t.0).unwrap_or(0);
    for (label, snap) in &ctx.tr.snaps {
        // the 9 reserved FRAME bytes are written before the first step: header snapshot sits before them
        let Some((rs, rk)) = boundary_state(snap.out_len) else {
            if snap.out_len > last_traced && m.reject.is_some() {
                break; // reference machine stopped earlier (a C01 matter)
            }
            if ops.iter().any(|o| o.pos < snap.out_len && snap.out_len < o.end) || snap.out_len > ops.last().map(|o| o.end).unwrap_or(0) {
                v.push(f("C17", "snapshot-inside-opcode", format!("{label} snapshot at byte {} is not an opcode boundary", snap.out_len)));
            }
            continue;
        };
        let prev_op = ops.iter().find(|o| o.end == snap.out_len).map(|o| lexer::name(o.code)).unwrap_or("start");
        if prev_op == "STOP" {
            // the reference machine halts at STOP and hands out the object on top; the oracle does not demand
            // that the simulation pops its result (nothing is emitted afterwards): compare as if it were kept
            if snap.stack.len() != rs.len() + 1 && snap.stack.len() != rs.len() {
                v.push(f("C17", "depth:STOP", format!("after STOP: simulated depth {} vs reference {} (+1 result)", snap.stack.len(), rs.len())));
            }
            continue;
        }
        if rs.len() != snap.stack.len() {
            v.push(f(
                "C17",
                format!("depth:{prev_op}"),
                format!("after {prev_op} (byte {}): simulated depth {} vs reference {}", snap.out_len, snap.stack.len(), rs.len()),
            ));
            break;
        }
        for (i, (g, r)) in snap.stack.iter().zip(rs.iter()).enumerate() {
            if !compat(*g, *r) {
                let what = if *g == tag::MARK || *r == Kind::Mark { "mark" } else { "kind" };
                v.push(f(
                    "C17",
                    format!("{what}:{prev_op}"),
                    format!("after {prev_op} (byte {}): slot {i} simulated tag {} vs reference {:?}", snap.out_len, g, r),
                ));
                return v;
            }
        }
        let gk: Vec<i128> = snap.memo.iter().map(|(k, _)| *k as i128).collect();
        if gk != rk {
            v.push(f(
                "C17",
                format!("memo-keys:{prev_op}"),
                format!("after {prev_op} (byte {}): simulated memo keys {:?} vs reference {:?}", snap.out_len, gk, rk),
            ));
            break;
        }
        for (k, t) in &snap.memo {
            if let Some(rkind) = m.machine.memo.get(&(*k as i128)) {
                if !compat(*t, *rkind) {
                    v.push(f("C17", format!("memo-kind:{prev_op}"), format!("memo[{k}] simulated tag {t} vs reference {rkind:?}")));
                    return v;
                }
            }
        }
    }
    v
}

/// C11 from one run with a given (min,max): T in range, one opcode per step, tail bound, total bound
pub fn c11(ctx: &RunCtx) -> Vec<Finding> {
    let mut v = vec![];
    let Some(out) = ctx.res.bytes() else { return v };
    let Ok((ops, _)) = ctx.ops else { return v };
    let (min, max) = (ctx.cfg.min, ctx.cfg.max);
    let Some(t) = ctx.tr.target else {
        v.push(f("C11", "no-target", "no target event"));
        return v;
    };
    let ok_t = if max <= min { t == min } else { min <= t && t <= max };
    if !ok_t {
        v.push(f("C11", "target-out-of-range", format!("T={t} outside [{min},{max}]")));
    }
    if ctx.tr.steps.len() != t {
        v.push(f("C11", "steps-ne-target", format!("{} body steps for T={t}", ctx.tr.steps.len())));
    }
    // each step contributes exactly one opcode
    let mut bounds: Vec<usize> = ctx.tr.steps.iter().map(|s| s.pre.out_len).collect();
    if let Some((_, le)) = &ctx.tr.loop_end {
        bounds.push(le.out_len);
    }
    let safe = !ctx.cfg.unsafe_mut;
    for w in bounds.windows(2).enumerate() {
        let (i, w) = w;
        let n = ops.iter().filter(|o| o.pos >= w[0] && o.pos < w[1]).count();
        let aligned = ops.iter().any(|o| o.pos == w[0]) && (ops.iter().any(|o| o.end == w[1]));
        if n != 1 || (safe && !aligned) {
            let name = ctx.tr.steps[i].chosen.map(lexer::name).unwrap_or("?");
            v.push(f("C11", format!("step-opcodes:{name}:{n}"), format!("body step {i} ({name}) contributed {n} opcodes (bytes {}..{})", w[0], w[1])));
        }
    }
    // tail: opcodes after the body, minus STOP
    if let Some((_, le)) = &ctx.tr.loop_end {
        let tail = ops.iter().filter(|o| o.pos >= le.out_len).count().saturating_sub(1);
        if tail > 2 * t + 1 {
            v.push(f("C11", "tail-too-long", format!("collapse tail has {tail} opcodes for T={t}")));
        }
        let header = ops.iter().filter(|o| o.pos < ctx.tr.steps.first().map(|s| s.pre.out_len).unwrap_or(le.out_len)).count();
        if header > 2 || ops.iter().take(header).any(|o| o.code != 0x80 && o.code != 0x95) {
            v.push(f("C11", "header", format!("{header} header opcodes")));
        }
    }
    let total = ops.len();
    let hi = 3 * min.max(max) + 4;
    if total < min + 1 || total > hi {
        v.push(f("C11", "total-out-of-bounds", format!("{total} opcodes outside [{}, {hi}]", min + 1)));
    }
    let _ = out;
    v
}

/// C15 on a whole generation: rate 0.0 never mutates / rewrites, rate 1.0 always lets the first applicable mutator fire
pub fn c15(ctx: &RunCtx) -> Vec<Finding> {
    use crate::units::applicable;
    use pickle_fuzzer::verif::ValueKind;
    let mut v = vec![];
    let rate = ctx.cfg.rate;
    for (i, st) in ctx.tr.steps.iter().enumerate() {
        let opname = st.chosen.map(lexer::name).unwrap_or("?");
        if rate == 0.0 && st.rewrites > 0 {
            v.push(f("C15", format!("rate0-rewrite:{opname}"), format!("step {i} ({opname}): emitted bytes rewritten at rate 0.0")));
        }
        for m in &st.muts {
            let kind = match m.kind {
                ValueKind::Int => "int",
                ValueKind::Long => "long",
                ValueKind::Float => "float",
                ValueKind::Str => "string",
                ValueKind::Bytes => "bytes",
                ValueKind::MemoIndex => "memo",
            };
            if rate == 0.0 {
                if let Some(who) = &m.fired {
                    v.push(f("C15", format!("rate0-fired:{who}:{kind}"), format!("step {i} ({opname}): {who} mutated a {kind} value at rate 0.0")));
                } else if m.output.as_ref().map(|o| *o != m.input).unwrap_or(false) {
                    v.push(f("C15", format!("rate0-changed:{kind}"), format!("step {i} ({opname}): {kind} value changed at rate 0.0")));
                }
            } else if rate == 1.0 {
                let first = ctx.cfg.mutators.iter().find(|mk| applicable(**mk, kind, ctx.cfg.unsafe_mut, m.input.is_empty()));
                // a mutator that fires although the documentation table does not list it for this kind is taken as
                // applicable (the statement only demands that nobody *earlier and applicable* was skipped)
                let fired_pos = m.fired.as_ref().and_then(|who| ctx.cfg.mutators.iter().position(|mk| mk.name() == who));
                let first_pos = first.and_then(|mk| ctx.cfg.mutators.iter().position(|x| x == mk));
                if let (Some(fp), Some(ap)) = (fired_pos, first_pos) {
                    if fp < ap {
                        continue;
                    }
                }
                match (first, &m.fired) {
                    (Some(mk), Some(who)) if mk.name() == who => {}
                    (Some(mk), other) => v.push(f(
                        "C15",
                        format!("rate1-declined:{}:{kind}", mk.name()),
                        format!("step {i} ({opname}): {kind} value should be mutated by {} at rate 1.0 but was mutated by {:?}", mk.name(), other),
                    )),
                    (None, Some(_)) => {}
                    (None, None) => {}
                }
            }
        }
    }
    v
}
