//! C11 (opcode-count knobs) and C12 (reachability).

use crate::checks_e1::{monitor_for, FULL};
use crate::explore::{analyse, Explorer, Finding, FrameSel, Opts, RunCtx};
use crate::lexer;
use crate::report::Report;
use crate::run::{run_bytes, run_seed, Cfg, ZERO_TAIL};
use crate::script;
use crate::trace;
use rayon::prelude::*;
use serde_json::json;
use std::collections::{BTreeMap, BTreeSet};

fn judge(prop: &str, cfg: &Cfg, r: &crate::run::RunResult, data_len: usize) -> Vec<Finding> {
    let tr = trace::parse(&r.events, data_len, !cfg.mutators.is_empty());
    let Some(b) = r.bytes() else { return vec![] };
    let (ops, m) = analyse(b);
    let ctx = RunCtx { cfg, script: &[], res: r, tr: &tr, ops: &ops, m: m.as_ref() };
    monitor_for(prop)(&ctx)
}

pub fn c11(tier: &str) -> i32 {
    let quick = tier == "quick";
    let mut rep = Report::new("C11", tier);
    let verbose = std::env::var("VERIF_VERBOSE").is_ok();
    // (1) the T draw: every (min,max) pair of the grid, every answer of the T draw, both FRAME coins, several bodies
    let mut pairs: Vec<(usize, usize)> = vec![(0, 0), (0, 1), (1, 1), (2, 5), (5, 2), (0, 7), (3, 3), (1, 2), (7, 0), (4, 5)];
    if !quick {
        pairs.extend([(0, 40), (10, 11), (39, 40), (60, 300), (300, 60), (0, 257), (255, 258)]);
    } else {
        pairs.extend([(60, 300), (0, 257)]);
    }
    let bodies: Vec<Vec<u8>> = {
        let mut v: Vec<Vec<u8>> = vec![vec![], vec![0xff; 96], (0..96u8).map(|i| i.wrapping_mul(37)).collect(), (0..96u8).map(|i| 255 - i.wrapping_mul(11)).collect(), vec![0x06; 64]];
        for k in 0..if quick { 8u32 } else { 64 } {
            let mut x = 0x2545f491u32 ^ k.wrapping_mul(0x9e3779b1);
            v.push((0..128).map(|_| { x ^= x << 13; x ^= x >> 17; x ^= x << 5; (x >> 11) as u8 }).collect());
        }
        v
    };
    let mut jobs: Vec<(Cfg, Vec<u8>, usize)> = vec![];
    for p in (0..=5u8).rev() {
        for &(min, max) in &pairs {
            for (ml, muts, uns) in [("none", vec![], false), ("full-safe", FULL.to_vec(), false), ("full-unsafe", FULL.to_vec(), true)] {
                let _ = ml;
                let cfg = Cfg::new(p).range(min, max).flags(true, true).muts(&muts, 0.5, uns);
                let range = max.saturating_sub(min) as u64;
                // answers of the T draw: all of them up to 16 alternatives, else the edges
                let answers: Vec<u64> = if range <= 16 { (0..range.max(1)).collect() } else { vec![0, 1, 2, range / 2, range - 2, range - 1] };
                let coins: Vec<Vec<u8>> = if p >= 4 { vec![vec![0], vec![1]] } else { vec![vec![]] };
                for coin in &coins {
                    for a in &answers {
                        for (bi, body) in bodies.iter().enumerate() {
                            let mut s = coin.clone();
                            s.extend_from_slice(&script::enc_index(*a, range));
                            s.extend_from_slice(body);
                            jobs.push((cfg.clone(), s, bi));
                        }
                    }
                }
            }
        }
    }
    let res: Vec<(Vec<Finding>, &(Cfg, Vec<u8>, usize), Option<usize>)> = jobs
        .par_iter()
        .map(|j| {
            let mut data = j.1.clone();
            data.resize(data.len() + ZERO_TAIL, 0);
            let r = run_bytes(&j.0, &data, true, false);
            let t = trace::parse(&r.events, data.len(), !j.0.mutators.is_empty()).target;
            (judge("C11", &j.0, &r, data.len()), j, t)
        })
        .collect();
    let mut targets: BTreeMap<String, BTreeSet<usize>> = BTreeMap::new();
    for (fs, j, t) in &res {
        for fd in fs {
            rep.finding_raw(&fd.class, &format!("{}: {}", j.0.describe(), fd.msg), json!({"kind":"bytes","config":j.0.to_json(),"script_hex":lexer::hex(&j.1)}));
        }
        if let Some(t) = t {
            targets.entry(format!("({},{})", j.0.min, j.0.max)).or_default().insert(*t);
        }
    }
    rep.transitions += jobs.len() as u64;
    rep.states += targets.values().map(|s| s.len() as u64).sum::<u64>();
    rep.set("t_draw_enumeration", json!({"range_pairs": pairs.iter().map(|p| format!("({},{})", p.0, p.1)).collect::<Vec<_>>(), "bodies": bodies.len(), "generations": jobs.len(),
        "distinct_T_per_pair": targets.iter().map(|(k, v)| (k.clone(), json!(v.iter().take(20).collect::<Vec<_>>()))).collect::<serde_json::Map<_, _>>() }));
    // (2) the body/tail accounting on every path of the exploration box (each path is a (k,k) run)
    let mon = monitor_for("C11");
    let guard = |ctx: &RunCtx| -> Vec<Finding> { mon(ctx) };
    for p in 0..=5u8 {
        for (label, cfg) in [("none", Cfg::new(p).flags(true, true)), ("full-safe@0.5", Cfg::new(p).flags(true, true).muts(&FULL, 0.5, false)), ("full-unsafe@0.5", Cfg::new(p).flags(true, true).muts(&FULL, 0.5, true))] {
            let has_m = !cfg.mutators.is_empty();
            let (d, m, b) = match (quick, has_m) {
                (true, false) => (if p == 0 { 4 } else { 3 }, 1, 0),
                (true, true) => (2, 1, 1),
                (false, false) => (if p == 0 { 5 } else if p % 2 == 1 { 4 } else { 3 }, 1, if p % 2 == 1 { 0 } else { 1 }),
                (false, true) => (2, 1, 1),
            };
            let opts = Opts { max_depth: d, max_memo: m, dev_budget: b, ref_in_key: false, frame: FrameSel::Both, ..Opts::default() };
            let t0 = std::time::Instant::now();
            let ex = Explorer { base_cfg: cfg, opts, monitor: &guard, xval_full: Default::default(), choice_discovery: Default::default() };
            let out = ex.explore(None);
            let l = format!("P{p}/{label}/D{d}M{m}b{b}");
            if verbose {
                eprintln!("plan {l:<40} states={:>8} transitions={:>10} found={} {:.2}s", out.stats.states, out.stats.transitions, out.found.len(), t0.elapsed().as_secs_f64());
            }
            rep.add_stats(&l, &out.stats);
            for fd in &out.found {
                rep.finding(fd);
            }
        }
    }
    // (2b) large memo (the 1-byte BINGET/BINPUT forms run out above 256 entries): every opcode after a 257-entry memo
    for p in 0..=5u8 {
        if quick && !(p == 1 || p == 4) {
            continue;
        }
        let put: Vec<u8> = match p {
            0 => vec![b'p'],
            1..=3 => vec![b'q', b'r', b'p'],
            _ => vec![0x94],
        };
        let mut plan = vec![vec![b'N']];
        plan.extend(std::iter::repeat(put).take(257));
        let cfg = Cfg::new(p).flags(true, true);
        let opts = Opts { max_depth: 2, max_memo: 258, dev_budget: 1, ref_in_key: false, frame: FrameSel::Off, max_path: if quick { 1 } else { 2 }, ..Opts::default() };
        let ex = Explorer { base_cfg: cfg, opts, monitor: &guard, xval_full: Default::default(), choice_discovery: Default::default() };
        match crate::explore::scenario(&ex, false, &plan) {
            Ok(r) => {
                let out = ex.explore(Some(vec![r]));
                rep.add_stats(&format!("P{p}/none/scenario-memo257"), &out.stats);
                for fd in &out.found {
                    rep.finding(fd);
                }
            }
            Err(e) => rep.machinery.push(format!("P{p} memo scenario: {e}")),
        }
    }
    // (3) seed sweep with default and extreme settings
    let seeds: u64 = if quick { 100 } else { 3000 };
    let sw: Vec<(Cfg, u64)> = (0..=5u8)
        .flat_map(|p| {
            [Cfg::new(p), Cfg::new(p).flags(true, true).muts(&FULL, 0.5, true), Cfg::new(p).range(0, 3), Cfg::new(p).range(500, 400)]
                .into_iter()
                .flat_map(move |c| (crate::report::sweep_base(seeds)..crate::report::sweep_base(seeds) + seeds).map(move |s| (c.clone(), s)))
        })
        .collect();
    let bad: Vec<(Finding, Cfg, u64)> = sw
        .par_iter()
        .flat_map_iter(|(cfg, s)| {
            let r = run_seed(cfg, *s, true);
            judge("C11", cfg, &r, 0).into_iter().map(move |f| (f, cfg.clone(), *s))
        })
        .collect();
    rep.transitions += sw.len() as u64;
    for (fd, cfg, s) in bad {
        rep.finding_raw(&fd.class, &format!("{}: seed {s}: {}", cfg.describe(), fd.msg), json!({"kind":"seed","config":cfg.to_json(),"seed":s}));
    }
    rep.set("seed_sweep", json!({"seeds": seeds, "configs_per_protocol": 4, "label": "finite PRNG seed range, not exhaustive"}));
    rep.sample(json!({"range": "(2,5)", "t_draw_answers": [0, 1, 2], "oracle": "T in [2,5], body steps == T, one opcode per step, tail <= 2T+1, total in [min+1, 3*max+4]"}));
    rep.assumptions = vec![
        "the choice of T (header logic) and the per-step/tail accounting (body logic) are explored separately: all T answers x a fixed set of bodies, and all bodies of the state box x T=k".into(),
    ];
    rep.finish(true, "every answer of the T draw for every (min,max) pair of the grid; closure of the state box with the per-step accounting oracle on every transition")
}

pub fn c12(tier: &str) -> i32 {
    let quick = tier == "quick";
    let mut rep = Report::new("C12", tier);
    let s_max: u64 = if quick { 20_000 } else { 200_000 };
    let mut all_ok = true;
    let mut summary = vec![];
    for p in 0..=5u8 {
        for flags in [false, true] {
            let cfg = Cfg::new(p).flags(flags, flags);
            // vocabulary of protocol p: opcodes introduced up to p; EXT*/buffer only with the flags; FRAME handled below
            let want: BTreeSet<u8> = lexer::vocabulary(p)
                .into_iter()
                .filter(|c| flags || !matches!(c, 0x82 | 0x83 | 0x84 | 0x97 | 0x98))
                .collect();
            // sweep in chunks, stop as soon as every opcode (and both FRAME outcomes) has a witness
            let mut first_seed: BTreeMap<u8, u64> = BTreeMap::new();
            let mut framed: Option<u64> = None;
            let mut unframed: Option<u64> = None;
            let mut done_at = None;
            let chunk = 500u64;
            let mut s0 = 0u64;
            while s0 < s_max {
                let found: Vec<(u64, Vec<u8>, bool)> = (s0..(s0 + chunk).min(s_max))
                    .into_par_iter()
                    .filter_map(|s| {
                        let r = run_seed(&cfg, s, false);
                        let b = r.bytes()?;
                        let (ops, _) = lexer::genops(b).ok()?;
                        let mut codes: Vec<u8> = ops.iter().map(|o| o.code).collect();
                        codes.sort_unstable();
                        codes.dedup();
                        let fr = codes.contains(&0x95);
                        Some((s, codes, fr))
                    })
                    .collect();
                let mut found = found;
                found.sort();
                for (s, codes, fr) in found {
                    for c in codes {
                        first_seed.entry(c).or_insert(s);
                    }
                    if fr {
                        framed.get_or_insert(s);
                    } else {
                        unframed.get_or_insert(s);
                    }
                }
                rep.transitions += chunk.min(s_max - s0);
                s0 += chunk;
                let complete = want.iter().all(|c| first_seed.contains_key(c)) && (p < 4 || (framed.is_some() && unframed.is_some()));
                if complete {
                    done_at = Some(s0);
                    break;
                }
            }
            let missing: Vec<&str> = want.iter().filter(|c| !first_seed.contains_key(c)).map(|c| lexer::name(*c)).collect();
            let rarest = first_seed.iter().filter(|(c, _)| want.contains(c)).max_by_key(|(_, s)| **s).map(|(c, s)| (lexer::name(*c), *s));
            summary.push(json!({"protocol": p, "opt_in_flags": flags, "vocabulary": want.len(), "seeds_needed": done_at, "rarest_opcode": rarest.map(|r| r.0), "its_first_seed": rarest.map(|r| r.1),
                "first_framed_seed": framed, "first_unframed_seed": unframed, "missing": missing}));
            rep.states += first_seed.len() as u64;
            for m in &missing {
                all_ok = false;
                rep.finding_raw(&format!("unreachable:P{p}:{m}"), &format!("protocol {p} (opt-in flags {flags}): opcode {m} does not occur for any seed in 0..{s_max} with default settings"), json!({"kind":"sweep","config":cfg.to_json(),"seeds":s_max}));
            }
            if p >= 4 && (framed.is_none() || unframed.is_none()) {
                all_ok = false;
                rep.finding_raw(&format!("frame-outcome-missing:P{p}"), &format!("protocol {p}: framed seed {:?}, unframed seed {:?} in 0..{s_max}", framed, unframed), json!({"kind":"sweep","config":cfg.to_json(),"seeds":s_max}));
            }
            // opcodes outside the vocabulary must not be needed, but if FRAME appears below 4 that is C06's business
        }
    }
    let _ = all_ok;
    rep.set("seed_sweep", json!(summary));
    // model-checking side: shortest witness script per opcode from the state-space closure (independent of PRNG luck)
    let noop = |_: &RunCtx| -> Vec<Finding> { vec![] };
    let mut wit = vec![];
    let mut not_in_box: Vec<String> = vec![];
    for p in 0..=5u8 {
        let cfg = Cfg::new(p).flags(true, true);
        let opts = Opts { max_depth: if quick { 3 } else { 4 }, max_memo: 1, dev_budget: 0, ref_in_key: false, frame: FrameSel::Both, ..Opts::default() };
        let ex = Explorer { base_cfg: cfg, opts, monitor: &noop, xval_full: Default::default(), choice_discovery: Default::default() };
        let mut out = ex.explore(None);
        rep.add_stats(&format!("P{p}/witness-closure"), &out.stats);
        {
            // integer opcodes are picked by a value draw inside the step: one deviation per step at a small box
            let opts = Opts { max_depth: 1, max_memo: 1, dev_budget: 1, ref_in_key: false, frame: FrameSel::Off, ..Opts::default() };
            let ex2 = Explorer { base_cfg: Cfg::new(p).flags(true, true), opts, monitor: &noop, xval_full: Default::default(), choice_discovery: Default::default() };
            let out2 = ex2.explore(None);
            rep.add_stats(&format!("P{p}/witness-closure-b1"), &out2.stats);
            for (c, w) in out2.witnesses {
                out.witnesses.entry(c).or_insert(w);
            }
        }
        let want: BTreeSet<u8> = lexer::vocabulary(p).into_iter().collect();
        for c in &want {
            match out.witnesses.get(c) {
                Some((s, k)) => wit.push(json!({"protocol": p, "opcode": lexer::name(*c), "script_hex": lexer::hex(s), "body_opcodes": k})),
                None => not_in_box.push(format!("P{p}:{}", lexer::name(*c))),
            }
        }
    }
    // informational: the box bounds the stack depth, so an opcode needing a deeper stack (SETITEMS needs 4 slots)
    // has no witness inside a depth-3 box; the verdict of this existential property comes from the sweep above
    rep.set("opcodes_without_witness_inside_the_box", json!(not_in_box));
    rep.set("shortest_witnesses", json!(wit.len()));
    for w in wit.iter().filter(|w| w["opcode"] == "NEWOBJ_EX" || w["opcode"] == "BUILD" || w["opcode"] == "SETITEMS").take(4) {
        rep.sample(w.clone());
    }
    if rep.samples.is_empty() {
        if let Some(w) = wit.first() {
            rep.sample(w.clone());
        }
    }
    rep.assumptions = vec![
        format!("the literal statement is decided by a sweep of the fixed seed range 0..{s_max} per protocol with default settings (once with and once without the opt-in flags)"),
        "the closure of the explorer gives, independently of PRNG luck, a shortest witness script per (protocol, opcode)".into(),
    ];
    rep.finish(true, "existential property: fixed seed range swept until every opcode of the vocabulary has a witness; plus shortest witnesses from the exhaustive closure of the state box")
}
