//! Reference pickle machine `M`: acceptance rule of `pickletools.dis` plus a kind per slot.
//! Written from the pickle format / pickletools documentation, not from /repo/src.

use crate::lexer::{ArgVal, Op};
use std::collections::BTreeMap;

#[derive(Clone, Copy, Debug, PartialEq, Eq, Hash, PartialOrd, Ord)]
#[repr(u8)]
pub enum Kind {
    Mark = 0,
    Int,
    Bool,
    Float,
    None,
    Str,
    Bytes,
    StrOrBytes,
    ByteArray,
    Buffer,
    List,
    Tuple,
    Dict,
    Set,
    FrozenSet,
    Callable,
    Object,
    Any,
}

impl Kind {
    pub fn is_data(self) -> bool {
        !matches!(self, Kind::Callable | Kind::Object | Kind::Any)
    }
    fn is(self, k: Kind) -> bool {
        self == k || self == Kind::Any
    }
    fn is_str(self) -> bool {
        matches!(self, Kind::Str | Kind::StrOrBytes | Kind::Any)
    }
    /// collapsed class used in exploration keys
    pub fn class(self) -> u8 {
        match self {
            Kind::Mark => 0,
            Kind::List => 1,
            Kind::Dict => 2,
            Kind::Set => 3,
            Kind::Tuple => 4,
            Kind::Str | Kind::StrOrBytes => 5,
            Kind::Callable => 6,
            Kind::Object => 7,
            Kind::Any => 9,
            _ => 8,
        }
    }
}

#[derive(Clone, Debug)]
pub struct KindViolation {
    pub pos: usize,
    pub code: u8,
    pub msg: String,
}

#[derive(Clone, Debug)]
pub struct Reject {
    pub pos: usize,
    pub code: u8,
    pub msg: String,
    /// which family of rule rejected: "stack" (operand count / MARK / final STOP)
    pub family: &'static str,
}

#[derive(Clone, Debug, Default)]
pub struct Machine {
    pub stack: Vec<Kind>,
    /// pickletools' `markstack`: one entry per MARK opcode not yet consumed by a MARK-consumer
    pub markstack: usize,
    pub memo: BTreeMap<i128, Kind>,
    /// memo keys in the order they were defined
    pub memo_order: Vec<i128>,
    pub kind_violations: Vec<KindViolation>,
    /// memo-discipline violations (`pickletools.dis` raises on the first one; `M` records it and goes on
    /// with a best-effort state so that the stack discipline of the rest can still be judged)
    pub memo_violations: Vec<KindViolation>,
    pub stopped: bool,
}

fn reject<T>(op: &Op, family: &'static str, msg: impl Into<String>) -> Result<T, Reject> {
    Err(Reject { pos: op.pos, code: op.code, msg: msg.into(), family })
}

impl Machine {
    pub fn new() -> Self {
        Self::default()
    }

    fn kv(&mut self, op: &Op, msg: impl Into<String>) {
        self.kind_violations.push(KindViolation { pos: op.pos, code: op.code, msg: msg.into() });
    }

    /// pop `n` plain operands (they may be MARK objects: pickletools does not care)
    fn popn(&mut self, op: &Op, n: usize) -> Result<Vec<Kind>, Reject> {
        if self.stack.len() < n {
            return reject(
                op,
                "stack",
                format!("tries to pop {} items from stack with only {} items", n, self.stack.len()),
            );
        }
        let at = self.stack.len() - n;
        Ok(self.stack.split_off(at))
    }

    /// MARK-consumer: pop everything at and after the topmost markobject; returns the slice above the mark
    fn pop_to_mark(&mut self, op: &Op) -> Result<Vec<Kind>, Reject> {
        if self.markstack == 0 {
            return reject(op, "stack", "no MARK exists on stack");
        }
        self.markstack -= 1;
        let Some(i) = self.stack.iter().rposition(|k| *k == Kind::Mark) else {
            // CPython: IndexError while popping — the stale markstack entry has no markobject left
            return reject(op, "stack", "MARK recorded but no markobject left on stack (dis crashes)");
        };
        let slice = self.stack.split_off(i + 1);
        self.stack.pop();
        Ok(slice)
    }

    fn mv(&mut self, op: &Op, msg: impl Into<String>) {
        self.memo_violations.push(KindViolation { pos: op.pos, code: op.code, msg: msg.into() });
    }

    fn memo_store(&mut self, op: &Op, idx: i128) {
        if self.memo.contains_key(&idx) {
            self.mv(op, format!("memo key {idx} already defined"));
            return;
        }
        match self.stack.last().copied() {
            None => self.mv(op, "stack is empty -- can't store into memo"),
            Some(Kind::Mark) => self.mv(op, "can't store markobject in the memo"),
            Some(k) => {
                self.memo.insert(idx, k);
                self.memo_order.push(idx);
            }
        }
    }

    fn int_arg(op: &Op) -> i128 {
        match op.arg {
            ArgVal::Int(v) => v,
            ArgVal::BoolLit(b) => b as i128,
            _ => 0,
        }
    }

    /// execute one opcode; `Err` = `pickletools.dis` raises here
    pub fn step(&mut self, op: &Op) -> Result<(), Reject> {
        use Kind::*;
        let c = op.code;
        match c {
            // ---- pushes
            b'I' => self.stack.push(if matches!(op.arg, ArgVal::BoolLit(_)) { Bool } else { Int }),
            b'J' | b'K' | b'M' | b'L' | 0x8a | 0x8b => self.stack.push(Int),
            b'S' => self.stack.push(Any), // protocol-0 STRING: kind left open by the format
            b'T' | b'U' => self.stack.push(StrOrBytes),
            b'B' | b'C' | 0x8e => self.stack.push(Bytes),
            0x96 => self.stack.push(ByteArray),
            0x97 => self.stack.push(Buffer),
            0x98 => {
                let v = self.popn(op, 1)?;
                // kind is kept (a read-only view of the same thing); a consumed markobject becomes a buffer
                self.stack.push(if v[0] == Mark { Buffer } else { v[0] });
            }
            b'N' => self.stack.push(None),
            0x88 | 0x89 => self.stack.push(Bool),
            b'V' | 0x8c | b'X' | 0x8d => self.stack.push(Str),
            b'F' | b'G' => self.stack.push(Float),
            b']' => self.stack.push(List),
            b')' => self.stack.push(Tuple),
            b'}' => self.stack.push(Dict),
            0x8f => self.stack.push(Set),
            b'(' => {
                self.stack.push(Mark);
                self.markstack += 1;
            }
            // ---- list
            b'a' => {
                let v = self.popn(op, 2)?;
                if !v[0].is(List) {
                    self.kv(op, format!("APPEND target is {:?}, not a list", v[0]));
                }
                self.stack.push(List);
            }
            b'e' => {
                let _slice = self.pop_to_mark(op)?;
                let v = self.popn(op, 1)?;
                if !v[0].is(List) {
                    self.kv(op, format!("APPENDS target is {:?}, not a list", v[0]));
                }
                self.stack.push(List);
            }
            b'l' => {
                self.pop_to_mark(op)?;
                self.stack.push(List);
            }
            // ---- tuple
            b't' => {
                self.pop_to_mark(op)?;
                self.stack.push(Tuple);
            }
            0x85 => {
                self.popn(op, 1)?;
                self.stack.push(Tuple);
            }
            0x86 => {
                self.popn(op, 2)?;
                self.stack.push(Tuple);
            }
            0x87 => {
                self.popn(op, 3)?;
                self.stack.push(Tuple);
            }
            // ---- dict
            b'd' => {
                let slice = self.pop_to_mark(op)?;
                if slice.len() % 2 != 0 {
                    self.kv(op, format!("DICT with odd operand count {}", slice.len()));
                }
                self.stack.push(Dict);
            }
            b's' => {
                let v = self.popn(op, 3)?;
                if !v[0].is(Dict) {
                    self.kv(op, format!("SETITEM target is {:?}, not a dict", v[0]));
                }
                self.stack.push(Dict);
            }
            b'u' => {
                let slice = self.pop_to_mark(op)?;
                let v = self.popn(op, 1)?;
                if !v[0].is(Dict) {
                    self.kv(op, format!("SETITEMS target is {:?}, not a dict", v[0]));
                }
                if slice.len() % 2 != 0 {
                    self.kv(op, format!("SETITEMS with odd operand count {}", slice.len()));
                }
                self.stack.push(Dict);
            }
            // ---- set
            0x90 => {
                let _slice = self.pop_to_mark(op)?;
                let v = self.popn(op, 1)?;
                if !v[0].is(Set) {
                    self.kv(op, format!("ADDITEMS target is {:?}, not a set", v[0]));
                }
                self.stack.push(Set);
            }
            0x91 => {
                self.pop_to_mark(op)?;
                self.stack.push(FrozenSet);
            }
            // ---- stack manipulation
            b'0' => {
                if self.stack.last() == Some(&Mark) {
                    // POP on a markobject behaves like POP_MARK in pickletools
                    self.pop_to_mark(op)?;
                } else {
                    self.popn(op, 1)?;
                }
            }
            b'2' => {
                let v = self.popn(op, 1)?;
                if v[0] == Mark {
                    self.kv(op, "DUP duplicates a MARK");
                }
                self.stack.push(v[0]);
                self.stack.push(v[0]);
            }
            b'1' => {
                self.pop_to_mark(op)?;
            }
            // ---- memo
            b'g' | b'h' | b'j' => {
                let idx = Self::int_arg(op);
                match self.memo.get(&idx) {
                    Some(k) => {
                        let k = *k;
                        self.stack.push(k)
                    }
                    Option::None => {
                        self.mv(op, format!("memo key {idx} has never been stored into"));
                        self.stack.push(Any);
                    }
                }
            }
            b'p' | b'q' | b'r' => {
                let idx = Self::int_arg(op);
                self.memo_store(op, idx);
            }
            0x94 => {
                let idx = self.memo.len() as i128;
                self.memo_store(op, idx);
                let v = self.popn(op, 1)?;
                self.stack.push(v[0]);
            }
            // ---- ext / globals / objects
            0x82 | 0x83 | 0x84 => self.stack.push(Any),
            b'c' => self.stack.push(Callable),
            0x93 => {
                let v = self.popn(op, 2)?;
                if !v[0].is_str() || !v[1].is_str() {
                    self.kv(op, format!("STACK_GLOBAL operands are {:?},{:?}, not two strings", v[0], v[1]));
                }
                self.stack.push(Callable);
            }
            b'R' | 0x81 => {
                let v = self.popn(op, 2)?;
                if v[0].is_data() {
                    self.kv(op, format!("callee is data ({:?})", v[0]));
                }
                if !v[1].is(Tuple) {
                    self.kv(op, format!("argument is {:?}, not a tuple", v[1]));
                }
                self.stack.push(Object);
            }
            0x92 => {
                let v = self.popn(op, 3)?;
                if v[0].is_data() {
                    self.kv(op, format!("NEWOBJ_EX callee is data ({:?})", v[0]));
                }
                if !v[1].is(Tuple) {
                    self.kv(op, format!("NEWOBJ_EX args is {:?}, not a tuple", v[1]));
                }
                if !v[2].is(Dict) {
                    self.kv(op, format!("NEWOBJ_EX kwargs is {:?}, not a dict", v[2]));
                }
                self.stack.push(Object);
            }
            b'b' => {
                let v = self.popn(op, 2)?;
                if v[0].is_data() {
                    self.kv(op, format!("BUILD target is data ({:?})", v[0]));
                }
                if !(v[1].is(Tuple) || v[1].is(Dict)) {
                    self.kv(op, format!("BUILD state is {:?}, not tuple/dict", v[1]));
                }
                self.stack.push(Object);
            }
            b'i' => {
                self.pop_to_mark(op)?;
                self.stack.push(Object);
            }
            b'o' => {
                let slice = self.pop_to_mark(op)?;
                match slice.first() {
                    Option::None => self.kv(op, "OBJ with no callee above its MARK"),
                    Some(k) if k.is_data() => self.kv(op, format!("OBJ callee is data ({:?})", k)),
                    _ => {}
                }
                self.stack.push(Object);
            }
            b'P' => self.stack.push(Any),
            b'Q' => {
                self.popn(op, 1)?;
                self.stack.push(Any);
            }
            // ---- framing / header / stop
            0x80 | 0x95 => {}
            b'.' => {
                self.popn(op, 1)?;
                self.stopped = true;
                if !self.stack.is_empty() {
                    return reject(op, "stack", format!("stack not empty after STOP: {} items", self.stack.len()));
                }
            }
            _ => return reject(op, "stack", "unknown opcode"),
        }
        Ok(())
    }
}

impl Machine {
    /// `pickletools.dis` raises nothing on the pickle `M` has just executed completely
    pub fn dis_accepts(&self, reject: &Option<Reject>) -> bool {
        reject.is_none() && self.memo_violations.is_empty() && self.stopped
    }
}

/// run `M` over a decoded pickle; returns the machine (for kind violations) or the first rejection,
/// plus the machine state after every opcode (`trace[i]` = (end offset, stack, number of memo keys defined so far)
/// after `ops[i]`) when `want_trace`
pub fn run(ops: &[Op], want_trace: bool) -> (Machine, Option<Reject>, Vec<(usize, Vec<Kind>, usize)>) {
    let mut m = Machine::new();
    let mut trace = Vec::new();
    for op in ops {
        if let Err(r) = m.step(op) {
            return (m, Some(r), trace);
        }
        if want_trace {
            trace.push((op.end, m.stack.clone(), m.memo_order.len()));
        }
    }
    (m, Option::None, trace)
}
