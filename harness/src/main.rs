#![allow(dead_code, private_interfaces, unused_mut)]
mod explore;
mod lexer;
mod monitors;
mod refm;
mod report;
mod run;
mod script;
mod trace;
mod xval;
mod checks_e1;
mod units;
mod hist;
mod total;
mod leak;
mod misc;
mod sched;
mod purity;
mod front;
mod watch;

#[global_allocator]
static GLOBAL: leak::Counting = leak::Counting;

fn usage() -> ! {
    eprintln!("usage: verif-harness <C01..C18> <quick|thorough>\n       verif-harness --replay <file>");
    std::process::exit(2);
}

fn main() {
    let args: Vec<String> = std::env::args().collect();
    run::install_quiet_panic_hook();
    script::init_module_specials(&report::repo_dir());
    if args.len() >= 3 && args[1] == "--replay" {
        std::process::exit(checks_e1::replay(&args[2]));
    }
    if args.len() >= 4 && args[1] == "--pair" {
        purity::print_pair(&args[2], &args[3]);
        return;
    }
    if args.len() >= 3 && args[1] == "--digests" {
        purity::print_digests(&args[2]);
        return;
    }
    if args.len() >= 5 && args[1] == "--trace" {
        let cfg = run::Cfg::new(args[2].parse().unwrap()).flags(true, true).range(args[3].parse().unwrap(), args[3].parse().unwrap());
        let data = lexer::unhex(&args[4]);
        let r = run::run_bytes(&cfg, &data, true, false);
        for e in &r.events {
            println!("{e:?}");
        }
        println!("{:?} {:?}", r.out.as_ref().map(|b| lexer::hex(b)), r.panic);
        if let Some(b) = r.bytes() {
            print!("{}", lexer::disasm(b));
        }
        return;
    }
    if args.len() >= 7 && args[1] == "--child" {
        // --child <proto> <T> <prefix hex> <repeat hex> <stack KiB> [mutators: none|unsafe]  (C09 big-T runs, no tracing)
        let p: u8 = args[2].parse().unwrap();
        let t: usize = args[3].parse().unwrap();
        let mut data = lexer::unhex(&args[4]);
        let rep = lexer::unhex(&args[5]);
        let kib: usize = args[6].parse().unwrap();
        while !rep.is_empty() && data.len() < t * rep.len() + 64 {
            data.extend_from_slice(&rep);
        }
        let mut cfg = run::Cfg::new(p).flags(true, true).range(t, t);
        if args.get(7).map(|s| s.as_str()) == Some("unsafe") {
            cfg = cfg.muts(&run::Mk::ALL, 0.5, true);
        }
        std::panic::set_hook(Box::new(|i| eprintln!("child panic: {i}")));
        let h = std::thread::Builder::new()
            .stack_size(kib * 1024)
            .spawn(move || {
                let t0 = std::time::Instant::now();
                let mut g = cfg.build();
                let r = g.generate_from_arbitrary(&data);
                let n = r.as_ref().map(|b| b.len()).unwrap_or(0);
                let ok = r.is_ok();
                drop(r);
                drop(g); // teardown of the simulated object graph is part of the call's cost
                (ok, n, t0.elapsed().as_secs_f64())
            })
            .unwrap();
        match h.join() {
            Ok((true, n, secs)) if n > 0 => {
                println!("CHILD-OK bytes={n} secs={secs:.3}");
                std::process::exit(0);
            }
            Ok((ok, n, _)) => {
                println!("CHILD-BAD ok={ok} bytes={n}");
                std::process::exit(3);
            }
            Err(_) => {
                println!("CHILD-PANIC");
                std::process::exit(4);
            }
        }
    }
    if args.len() < 3 {
        usage();
    }
    let prop = args[1].as_str();
    let tier = args[2].as_str();
    if tier != "quick" && tier != "thorough" {
        usage();
    }
    let sprop: &'static str = ["C01", "C02", "C03", "C04", "C05", "C06", "C07", "C08", "C09", "C10", "C11", "C12", "C13", "C14", "C15", "C16", "C17", "C18"]
        .iter()
        .find(|p| **p == prop)
        .copied()
        .unwrap_or("C??");
    watch::start(sprop, tier.to_string(), if tier == "quick" { 45 } else { 180 });
    let code = match prop {
        "C01" | "C02" | "C03" | "C05" | "C17" | "C04" | "C06" | "C10" => checks_e1::check(prop, tier),
        "C07" => purity::c07(tier),
        "C08" => hist::c08(tier),
        "C09" => total::c09(tier),
        "C11" => misc::c11(tier),
        "C12" => misc::c12(tier),
        "C13" => front::c13(tier),
        "C14" => leak::c14(tier),
        "C15" => checks_e1::check_c15(tier),
        "C16" => units::c16(tier),
        "C18" => units::c18(tier),
        _ => {
            eprintln!("unknown property {prop}");
            2
        }
    };
    std::process::exit(code);
}
