#![allow(dead_code, private_interfaces, unused_mut)]
mod explore;
mod lexer;
mod monitors;
mod refm;
mod report;
mod run;
mod script;
mod trace;
mod xval;
mod checks_e1;
mod units;

fn usage() -> ! {
    eprintln!("usage: verif-harness <C01..C18> <quick|thorough>\n       verif-harness --replay <file>");
    std::process::exit(2);
}

fn main() {
    let args: Vec<String> = std::env::args().collect();
    run::install_quiet_panic_hook();
    script::init_module_specials(&report::repo_dir());
    if args.len() >= 3 && args[1] == "--replay" {
        std::process::exit(checks_e1::replay(&args[2]));
    }
    if args.len() >= 5 && args[1] == "--trace" {
        let cfg = run::Cfg::new(args[2].parse().unwrap()).flags(true, true).range(args[3].parse().unwrap(), args[3].parse().unwrap());
        let data = lexer::unhex(&args[4]);
        let r = run::run_bytes(&cfg, &data, true, false);
        for e in &r.events {
            println!("{e:?}");
        }
        println!("{:?} {:?}", r.out.as_ref().map(|b| lexer::hex(b)), r.panic);
        if let Some(b) = r.bytes() {
            print!("{}", lexer::disasm(b));
        }
        return;
    }
    if args.len() < 3 {
        usage();
    }
    let prop = args[1].as_str();
    let tier = args[2].as_str();
    if tier != "quick" && tier != "thorough" {
        usage();
    }
    let code = match prop {
        "C01" | "C02" | "C03" | "C05" | "C17" | "C04" | "C06" | "C10" => checks_e1::check(prop, tier),
        "C15" => checks_e1::check_c15(tier),
        "C16" => units::c16(tier),
        "C18" => units::c18(tier),
        _ => {
            eprintln!("unknown property {prop}");
            2
        }
    };
    std::process::exit(code);
}
