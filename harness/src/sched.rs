//! E3: exhaustive exploration of thread interleavings at entropy-draw granularity.
//!
//! n OS threads each own a generator; the draw hook of the `verif-hooks` feature is a scheduling point:
//! a thread blocks there until it holds the baton, so exactly one thread runs between two consecutive draws.
//! Schedules are explored depth first with a preemption bound (iterated 0,1,2,..).

use crate::run::Cfg;
use pickle_fuzzer::verif;
use std::panic::{catch_unwind, AssertUnwindSafe};
use std::sync::{Arc, Condvar, Mutex};

#[derive(Clone, Debug)]
pub enum Work {
    Bytes(Cfg, Vec<u8>),
    Seeded(Cfg, u64),
}

impl Work {
    pub fn run_solo(&self) -> Result<Vec<u8>, String> {
        match self {
            Work::Bytes(c, d) => {
                let mut g = c.build();
                g.generate_from_arbitrary(d).map_err(|e| format!("{e}"))
            }
            Work::Seeded(c, s) => {
                let mut g = c.build().with_seed(*s);
                g.generate().map_err(|e| format!("{e}"))
            }
        }
    }
    pub fn describe(&self) -> String {
        match self {
            Work::Bytes(c, d) => format!("{} generate_from_arbitrary({})", c.describe(), crate::lexer::hex(d)),
            Work::Seeded(c, s) => format!("{} with_seed({s}).generate()", c.describe()),
        }
    }
}

struct Shared {
    /// thread that may run
    baton: usize,
    finished: Vec<bool>,
    /// schedule prefix to replay: decision j = thread chosen at scheduling point j
    prefix: Vec<usize>,
    /// decisions taken so far in this execution
    taken: Vec<usize>,
    /// per decision: (running thread, enabled set)
    points: Vec<(usize, Vec<usize>)>,
    divergence: Option<String>,
    /// scheduling points seen after which we stop waiting (horizon)
    max_points: usize,
}

pub struct Sched {
    m: Mutex<Shared>,
    cv: Condvar,
}

impl Sched {
    /// called by thread `me` when it reaches a scheduling point (`finished` = it has just completed its work)
    fn point(&self, me: usize, finished: bool) {
        let mut g = self.m.lock().unwrap();
        if finished {
            g.finished[me] = true;
        }
        let enabled: Vec<usize> = (0..g.finished.len()).filter(|t| !g.finished[*t]).collect();
        if enabled.is_empty() {
            self.cv.notify_all();
            return;
        }
        let j = g.taken.len();
        // canonical default: keep running the current thread if it is still enabled, else the lowest id
        let default = if !finished { me } else { enabled[0] };
        let choice = if j < g.prefix.len() {
            let c = g.prefix[j];
            if !enabled.contains(&c) {
                g.divergence = Some(format!("replay divergence at point {j}: thread {c} not enabled ({enabled:?})"));
                default
            } else {
                c
            }
        } else {
            default
        };
        g.points.push((if finished { usize::MAX } else { me }, enabled));
        g.taken.push(choice);
        if g.points.len() > g.max_points {
            g.divergence = Some("horizon exceeded".into());
        }
        g.baton = choice;
        self.cv.notify_all();
        if finished {
            return;
        }
        while g.baton != me {
            g = self.cv.wait(g).unwrap();
        }
    }

    fn wait_for_baton(&self, me: usize) {
        let mut g = self.m.lock().unwrap();
        while g.baton != me {
            g = self.cv.wait(g).unwrap();
        }
    }
}

pub struct Execution {
    pub outputs: Vec<Result<Vec<u8>, String>>,
    pub taken: Vec<usize>,
    pub points: Vec<(usize, Vec<usize>)>,
    pub divergence: Option<String>,
}

/// run all works concurrently under the given schedule prefix (then non-preemptively)
pub fn execute(works: &[Work], prefix: &[usize]) -> Execution {
    let n = works.len();
    let sched = Arc::new(Sched {
        m: Mutex::new(Shared { baton: 0, finished: vec![false; n], prefix: prefix.to_vec(), taken: vec![], points: vec![], divergence: None, max_points: 100_000 }),
        cv: Condvar::new(),
    });
    // the very first decision (who starts) is scheduling point 0, taken before any thread runs
    {
        let mut g = sched.m.lock().unwrap();
        let enabled: Vec<usize> = (0..n).collect();
        let choice = if !prefix.is_empty() { prefix[0] } else { 0 };
        g.points.push((usize::MAX, enabled));
        g.taken.push(choice);
        g.baton = choice;
    }
    let mut handles = vec![];
    for (i, w) in works.iter().enumerate() {
        let w = w.clone();
        let s = sched.clone();
        handles.push(std::thread::spawn(move || {
            s.wait_for_baton(i);
            let s2 = s.clone();
            verif::set_draw_hook(Some(Box::new(move || s2.point(i, false))));
            let r = catch_unwind(AssertUnwindSafe(|| w.run_solo()));
            verif::set_draw_hook(None);
            s.point(i, true);
            match r {
                Ok(x) => x,
                Err(_) => Err("panic".into()),
            }
        }));
    }
    let outputs: Vec<Result<Vec<u8>, String>> = handles.into_iter().map(|h| h.join().unwrap_or(Err("thread died".into()))).collect();
    let g = sched.m.lock().unwrap();
    Execution { outputs, taken: g.taken.clone(), points: g.points.clone(), divergence: g.divergence.clone() }
}

#[derive(Default, Debug)]
pub struct SchedStats {
    pub schedules: u64,
    pub points: u64,
    pub max_points_in_a_schedule: usize,
    pub distinct_outcomes: usize,
    pub bound_completed: usize,
    pub capped: bool,
}

/// number of preemptions in decisions[..upto]
fn preemptions(points: &[(usize, Vec<usize>)], taken: &[usize], upto: usize) -> usize {
    (0..upto).filter(|&j| points[j].0 != usize::MAX && points[j].1.contains(&points[j].0) && taken[j] != points[j].0).count()
}

/// explore all schedules with at most `bound` preemptions; calls `check` on every complete execution
pub fn explore(works: &[Work], bound: usize, cap: u64, check: &mut dyn FnMut(&Execution)) -> SchedStats {
    let mut st = SchedStats::default();
    let mut outcomes: std::collections::BTreeSet<Vec<u8>> = Default::default();
    let mut stack: Vec<Vec<usize>> = vec![vec![]];
    while let Some(prefix) = stack.pop() {
        if st.schedules >= cap {
            st.capped = true;
            break;
        }
        let x = execute(works, &prefix);
        st.schedules += 1;
        st.points += x.points.len() as u64;
        st.max_points_in_a_schedule = st.max_points_in_a_schedule.max(x.points.len());
        let mut sig = vec![];
        for o in &x.outputs {
            match o {
                Ok(b) => {
                    sig.extend_from_slice(&(b.len() as u32).to_le_bytes());
                    sig.extend_from_slice(b);
                }
                Err(e) => sig.extend_from_slice(e.as_bytes()),
            }
        }
        outcomes.insert(sig);
        check(&x);
        for i in prefix.len()..x.points.len() {
            let (running, enabled) = &x.points[i];
            let mut cost = preemptions(&x.points, &x.taken, i);
            for &alt in enabled {
                if alt == x.taken[i] {
                    continue;
                }
                let is_preempt = *running != usize::MAX && enabled.contains(running) && alt != *running;
                let c = cost + is_preempt as usize;
                if c > bound {
                    continue;
                }
                let mut p2 = x.taken[..i].to_vec();
                p2.push(alt);
                stack.push(p2);
            }
            let _ = &mut cost;
        }
    }
    st.distinct_outcomes = outcomes.len();
    st.bound_completed = bound;
    st
}
