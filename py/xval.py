#!/usr/bin/env python3
"""Conformance of the harness's reference lexer L and machine M with CPython's pickletools.

Input file: records  <u32 len><bytes><u8 flags><u32 n_ops>   (flags bit0: L decodes, bit1: M accepts like dis)
Output (stdout, JSON): counts and the first disagreements.  A disagreement is a *machinery* error.
"""
import io, json, struct, sys, pickletools, multiprocessing, os

def check(rec):
    data, flags, nops = rec
    l_ok, m_ok = bool(flags & 1), bool(flags & 2)
    try:
        ops = list(pickletools.genops(data))
        g_ok, g_err = True, None
    except Exception as e:  # noqa
        g_ok, g_err, ops = False, repr(e), []
    if g_ok != l_ok:
        return ("genops", data.hex(), f"L={l_ok} genops={g_ok} {g_err}")
    if g_ok and len(ops) != nops:
        return ("genops", data.hex(), f"op count L={nops} genops={len(ops)}")
    if not g_ok:
        return None
    # genops stops at the first STOP; dis only looks that far as well
    try:
        pickletools.dis(data, io.StringIO())
        d_ok, d_err = True, None
    except Exception as e:  # noqa
        d_ok, d_err = False, repr(e)
    if d_ok != m_ok:
        return ("dis", data.hex(), f"M={m_ok} dis={d_ok} {d_err}")
    return None

def main():
    path = sys.argv[1]
    raw = open(path, "rb").read()
    recs, i = [], 0
    while i < len(raw):
        (n,) = struct.unpack_from("<I", raw, i); i += 4
        data = raw[i:i+n]; i += n
        flags = raw[i]; i += 1
        (nops,) = struct.unpack_from("<I", raw, i); i += 4
        recs.append((data, flags, nops))
    nproc = min(int(os.environ.get("VERIF_XVAL_PROCS", "8")), max(1, len(recs) // 2000 + 1))
    if nproc > 1:
        with multiprocessing.Pool(nproc) as pool:
            res = pool.map(check, recs, chunksize=2000)
    else:
        res = [check(r) for r in recs]
    bad = [r for r in res if r]
    out = {"validated": len(recs), "disagreements": len(bad), "first": bad[:10],
           "python": sys.version.split()[0],
           "has_memo_redefinition_rule": "already defined" in open(pickletools.__file__).read()}
    print(json.dumps(out))

if __name__ == "__main__":
    main()
