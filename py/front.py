#!/usr/bin/env python3
"""Drive the Python front end (pickle_fuzzer.Generator / fuzzer.PickleMutator) with call sequences given as JSON
on stdin; print the results as JSON. Used by the C13 check; the expected bytes are computed by the harness through
the Rust library."""
import json, sys, os, types

pkg = os.environ["VERIF_PYPKG"]
sys.path.insert(0, pkg)
try:
    import atheris  # noqa: F401  (fuzzer.py imports it at module level)
except Exception:
    # the bundled fuzzer.py only needs the name to exist for PickleMutator
    stub = types.ModuleType("atheris")
    stub.instrument_func = lambda f: f
    stub.Setup = lambda *a, **k: None
    stub.Fuzz = lambda *a, **k: None
    sys.modules["atheris"] = stub
import pickle_fuzzer
from pickle_fuzzer.fuzzer import PickleMutator

def run(seq):
    out = []
    kind = seq["object"]
    if kind == "Generator":
        g = pickle_fuzzer.Generator(protocol=seq["protocol"], seed=seq.get("seed"))
    else:
        g = PickleMutator(protocol=seq["protocol"], seed=seq.get("seed"))
    for c in seq["calls"]:
        name = c["call"]
        try:
            if name == "set_opcode_range":
                g.set_opcode_range(c["min"], c["max"]); out.append(None)
            elif name == "generate":
                out.append(g.generate().hex())
            elif name == "generate_from_bytes":
                out.append(g.generate_from_bytes(bytes.fromhex(c["data"])).hex())
            elif name == "reset":
                g.reset(); out.append(None)
            elif name == "mutate":
                out.append(g.mutate(bytes.fromhex(c["data"]), c["max_size"]).hex())
            else:
                out.append("unknown call")
        except Exception as e:  # noqa
            out.append("EXC:" + repr(e))
    return out

seqs = json.load(sys.stdin)
json.dump([run(s) for s in seqs], sys.stdout)
