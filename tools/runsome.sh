#!/bin/bash
# runsome.sh <tier> <seed> <id...> : like runall.sh for the given checks
TIER="$1"; export VERIF_SEED="$2"; shift 2
cd "$(dirname "$0")/.."
for c in "$@"; do
  s=$(date +%s)
  out=$(bin/check $c $TIER 2>&1); code=$?
  e=$(date +%s)
  echo "$c $TIER seed=$VERIF_SEED exit=$code wall=$((e-s))s :: $(echo "$out" | grep -E "^C[0-9]+ |^VIOLATION|^MACHINERY|^KNOWN" | tr '\n' ' ' | cut -c1-220)"
done
