#!/bin/bash
# ingest_seeded.sh <PROP-ID> <name> <demo.rs> : confirm an agent's mutant in its worktree, store it under /verif/seeded/<name>/
set -u
ID="$1"; NAME="$2"; DEMO="$3"; WT=/tmp/wt/$ID
R=$(/verif/tools/confirm_seeded.sh "$WT" "$DEMO" 2>&1 | tail -1)
echo "$R"
case "$R" in *"suite-with-patch=pass"*"demo-with-patch=FAIL demo-without-patch=pass"*) ;; *) echo "NOT CONFIRMED"; exit 1;; esac
D=/verif/seeded/$NAME; mkdir -p "$D"
cp "$WT"/OUT/patch.diff "$WT"/OUT/NOTES.md "$D"/ 2>/dev/null
cp "$WT"/OUT/demo_* "$WT"/OUT/*.sh "$D"/ 2>/dev/null
echo "$R" > "$D/confirm.txt"
echo "stored in $D"
