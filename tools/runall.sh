#!/bin/bash
# runall.sh <tier> [seed] : run every registered check once, print exit code and wall time per check
TIER="${1:-quick}"; export VERIF_SEED="${2:-0}"
cd "$(dirname "$0")/.."
for c in C01 C02 C03 C04 C05 C06 C07 C08 C09 C10 C11 C12 C13 C14 C15 C16 C17 C18; do
  s=$(date +%s)
  out=$(bin/check $c $TIER 2>&1); code=$?
  e=$(date +%s)
  echo "$c $TIER seed=$VERIF_SEED exit=$code wall=$((e-s))s :: $(echo "$out" | grep -E "^C[0-9]+ |^VIOLATION|^MACHINERY|^KNOWN" | tr '\n' ' ' | cut -c1-220)"
done
