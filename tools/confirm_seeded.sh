#!/bin/bash
# confirm_seeded.sh <worktree> <demo.rs (inside worktree/OUT)>
# Confirms, in the agent's scratch worktree: (1) repo tests pass with the patch, (2) demo fails with it, (3) demo passes without.
set -u
WT="$1"; DEMO="$2"
export CARGO_TARGET_DIR="$WT/target" CARGO_NET_OFFLINE=true
cd "$WT" || exit 2
git checkout -q -- . ; rm -f tests/demo_*.rs
NAME=$(basename "$DEMO" .rs)
git apply OUT/patch.diff || { echo "CONFIRM patch does not apply"; exit 2; }
if cargo test --workspace --no-fail-fast --offline >"$WT/OUT/confirm-suite.log" 2>&1; then S=pass; else S=FAIL; fi
N=$(grep -E "^test result" "$WT/OUT/confirm-suite.log" | awk '{s+=$4} END{print s}')
cp "OUT/$NAME.rs" "tests/$NAME.rs"
if cargo test --offline ${DEMO_FEATURES:+--features $DEMO_FEATURES} --test "$NAME" >"$WT/OUT/confirm-demo-with.log" 2>&1; then W=pass; else W=FAIL; fi
git apply -R OUT/patch.diff
if cargo test --offline ${DEMO_FEATURES:+--features $DEMO_FEATURES} --test "$NAME" >"$WT/OUT/confirm-demo-without.log" 2>&1; then O=pass; else O=FAIL; fi
rm -f "tests/$NAME.rs"; git checkout -q -- .
echo "CONFIRM suite-with-patch=$S ($N tests) demo-with-patch=$W demo-without-patch=$O"
[ "$S" = pass ] && [ "$W" = FAIL ] && [ "$O" = pass ]
