#!/usr/bin/env python3
"""Print a markdown table of what the committed evidence files say (used for DESIGN.md §10.11)."""
import json, glob, os
rows=[]
for f in sorted(glob.glob(os.path.join(os.path.dirname(__file__),'..','evidence','C*.json'))):
    e=json.load(open(f)); c=e['coverage']
    rows.append((e['property_id'], e['tier'], c.get('states'), c.get('transitions'), c.get('traces_validated_against_impl'), len(c.get('explorations',[])), round(e['wall_s']), e.get('violations')))
print("| property | tier | states | transitions | validated | explorations | wall s | violations |")
print("|---|---|---:|---:|---:|---:|---:|---:|")
for r in rows: print("| "+" | ".join(str(x) for x in r)+" |")
