#!/usr/bin/env python3
"""Regenerate /verif/MANIFEST.json from the table below (kept in one place so that it stays valid)."""
import json, subprocess

hooks = subprocess.check_output(["git", "-C", "/repo", "log", "--format=%H %s"]).decode().splitlines()
hook_commits = [l.split()[0] for l in hooks if "verif-hooks" in l]

E1 = "E1 explorer over the real generator (harness/src/explore.rs)"
checks = {
 "C01": ("explicit-state closure of the generator's abstract states through its entropy seam; oracle = reference pickle machine (pickletools.dis rules), bound to CPython by replay",
         "Every transition is a complete generation of the real code (header, body, cleanup, STOP, FRAME patch) judged by a reference machine with the acceptance rule of pickletools.dis; the closure runs to fixpoint inside a box on stack depth and memo size, from the initial state and from scenario states (256-entry memo, 300-deep stack, 40 MARKs), for 6 protocols x {no mutators, all 7 safe mutators with every gate both ways}; states one slot deeper than the box still run their operand-consuming opcodes; the third pickle of a reused generator and a PRNG seed sweep go through the same oracle; long programs (10 003 / 20 005 / 30 000 opcodes: the empty input and six always-the-same-opcode strategies per protocol) are run untraced and judged from the bytes.",
         "value draws explored over boundary alphabets with a per-step deviation budget; states merged by kind classes + enabled-opcode mask; PRNG mode covered by subsumption plus a labelled seed sweep; reference machine bound to CPython 3.11 pickletools on the collected outputs", "§4 C01"),
 "C02": ("same closure as C01 plus memo scenarios (255/256/257 entries) under OffByOne/MemoIndex(safe) at rate 1.0; oracle = memo rules of pickletools.dis in the reference machine",
         "GET resolves / PUT fresh / never on MARK, checked on every complete output of the closure and of the large-memo scenarios where the 1-byte BINPUT/BINGET forms run out.",
         "as C01; memo size reaches 257+2 only through the scenario prefixes", "§4 C02"),
 "C03": ("same closure as C01; oracle = kind rules of the statement evaluated by the reference machine on every output",
         "Every guard is evaluated on every combination of operand kinds up to the box depth; the reference machine derives kinds from the bytes alone and is Any-tolerant exactly where the statement says.",
         "as C01", "§4 C03"),
 "C04": ("explicit-state closure incl. unsafe mutators with deviation budget 2 on value draws; oracle = reference lexer (pickletools opcode table) + domain rules, bound to pickletools.genops by replay",
         "All outputs decode completely, one STOP and it is last, EXT codes >= 1, decimal memo indices >= 0; configurations none / all-safe / all-unsafe with every mutator gate explored both ways.",
         "value alphabets (special characters, boundary ints/floats, module-table edge entries), not full domains", "§4 C04"),
 "C05": ("same closure as C01; oracle = introduced-in protocol of every decoded opcode, PROTO header rule, 7-bit rule for protocol 0",
         "Every opcode occurrence of every explored output (incl. the collapse tail) is compared with the protocol table of pickletools.", "as C01", "§4 C05"),
 "C06": ("closure as C04 (all configurations incl. unsafe, FRAME coin both ways); oracle = at most one FRAME, directly after PROTO, length == bytes after its argument",
         "Both outcomes of the FRAME coin are explored in every state of the box for protocols 4 and 5; absence is checked for 0-3; 20 005-opcode programs (framed and unframed) and small pickles after a 12 000-opcode one on the same generator are judged from the bytes.", "as C04", "§4 C06"),
 "C07": ("replay of every run of a state box on other threads; enumeration of memo hash-map iteration orders through a hasher seam (all k! orders for k<=3 required); exhaustive schedules of 2-3 concurrent generators at draw granularity with preemption bound 0..2(3); fresh processes / rayon worker counts sampled; one configuration reached through four builder / field routes",
         "Purity is decided by enumeration where the nondeterminism source can be owned (hash order incl. 258-entry memos and mutator direction draws, schedules, threads, every ordered pair of 9 configurations in fresh processes) and sampled where it cannot (addresses, worker counts).",
         "interleavings only at entropy-draw granularity; pointer-hashed containers and ASLR only sampled", "§4 C07"),
 "C08": ("all call histories (generate_from_arbitrary x inputs, generate, reset) up to length 3 (4) on one generator; differential oracle against a fresh generator",
         "No expected bytes are written by hand: the i-th call must return what a fresh, equally configured generator returns; size-class histories put a 14k-30k opcode result before small ones; the opt-in flags are changed between calls (all ordered pairs of flag settings).", "call alphabet of 6 (8) calls plus range assignments; history length bound", "§4 C08"),
 "C09": ("alias-exact closure of all opcode sequences up to Lp; all 65,793 byte strings of length <= 2 x configurations; degenerate knob grid (NaN/out-of-range rates, min>max); 10k (30k) opcode strategies in child processes on a 2 MiB stack with a watchdog; mutator lists as multisets (ordered pairs incl. repeated mutators)",
         "Ok / non-empty / no unwind / child exit 0 on everything enumerated; plus kind-keyed and alias-relation closures with value deviations; an in-process hang ends the check with a VIOLATION through the watchdog.", "termination is judged by a watchdog (45 s / 180 s per generation); harness built with overflow checks on", "§4 C09"),
 "C10": ("closure for the four flag combinations x {none, all-unsafe, reversed-unsafe} per protocol; oracle = histogram of decoded opcodes",
         "EXT*/buffer opcodes never occur unless their flag is on, also under type confusion and byte rewriting, through the CLI with each flag on its own, and on a generator whose flags were changed between two calls.", "as C04", "§4 C10"),
 "C11": ("every answer of the T draw for every (min,max) pair of a grid incl. inverted/zero; closure of the state box with a per-step accounting oracle (one opcode per step, tail <= 2T+1, total bounds)",
         "T selection (header logic) and per-step/tail accounting (body logic) are enumerated separately and completely within their grids.", "range grid, not all usize pairs", "§4 C11"),
 "C12": ("existential: fixed seed range 0..20000 (200000) per protocol swept until every vocabulary opcode and both FRAME outcomes have a witness; plus shortest witnesses from the exhaustive closure",
         "The literal statement quantifies over a fixed seed range, which is enumerated; the closure gives PRNG-independent witnesses.", "seed range fixed in the check", "§4 C12"),
 "C13": ("exhaustive option grid through the real CLI / batch mode / action wrapper / Python module, bytes compared with the library in-process",
         "Quick: every single-option deviation from two base points plus a diagonal mix (~300 CLI runs), batch file sets and exit status, 36 wrapper runs, ~2800 Python call sequences; thorough: full product.",
         "option -> builder mapping taken from the documentation", "§4 C13"),
 "C14": ("alias-exact closure of all opcode sequences up to Lp, each path re-run untraced between two readings of a per-thread live-heap counter; generate/reset/drop histories",
         "Zero live bytes after drop for every explored path implies bounded memory for any sequence; the alias-relation closure (kinds + which roots alias / reach each other) runs to fixpoint, cycle-building paths are repeated on one generator.", "counting global allocator in the harness process; depth box / path length bound", "§4 C14"),
 "C15": ("unit enumeration of every (mutator, method, value, gate answer over the f64 alphabet incl. exhausted input) at rate 0.0 and 1.0; closure of a state box per configuration with every gate draw enumerated",
         "Rate 0 never fires / rewrites, rate 1 lets the first applicable mutator fire, in both entropy modes; also with mutator instances created with the other unsafe flag than the generator's.", "applicability table from the documentation; PRNG seeds are a sweep", "§4 C15"),
 "C16": ("exhaustive enumeration: every mutator x method x boundary value list x (gate + every byte string of length <= 2 + edge continuations + seeds); type confusion on all 256 first bytes x every wrong-type answer",
         "Contract sentences of the statement are evaluated on every call; panics are caught per call; type confusion also as a chain of 2-3 instances on one emission.", "value lists are boundary-exhaustive, not all 2^32/2^64", "§4 C16"),
 "C17": ("same closure as C01; on every transition each hook snapshot of the simulated stack/memo is compared with the reference machine advanced over exactly the bytes emitted so far",
         "Depth, MARK positions, slot-by-slot kind compatibility and memo key set after every emitted opcode; the product state is part of the key so drift cannot hide behind merging.",
         "as C01; the oracle does not demand that the simulation pops the result at STOP", "§4 C17"),
 "C18": ("exhaustive enumeration: all byte strings of length <= 2 and edge-alphabet strings up to 16 bytes x argument grid (15 values, all pairs for gen_range) on the real adapters; PRNG seeds swept",
         "Range / printable / length clauses and determinism on every call; exhausted input gives a fixed fallback.", "argument grid, PRNG seed sweep", "§4 C18"),
}

m = {
 "version": 1,
 "setup_cmd": "bin/setup",
 "hooks": {
   "guard": "cargo feature verif-hooks",
   "enable": "harness/Cargo.toml depends on /repo with features = [\"verif-hooks\"] (cargo build --release --offline, target dir /verif/target)",
   "baseline_off_cmd": "cd /repo && cargo test --workspace --no-fail-fast --offline",
   "source_commits": hook_commits,
   "add_only": True,
 },
 "engines": [
   {"name": "E1 choice-point explorer", "path": "harness/src/explore.rs", "serves_properties": ["C01","C02","C03","C04","C05","C06","C09","C10","C11","C12","C14","C15","C17","C07"], "kind_free_text": "explicit-state BFS to fixpoint over the real generator, driven through generate_from_arbitrary with scripted entropy answers"},
   {"name": "R reference lexer + machine + CPython binding", "path": "harness/src/lexer.rs harness/src/refm.rs py/xval.py", "serves_properties": ["C01","C02","C03","C04","C05","C06","C10","C17"], "kind_free_text": "oracle written from the pickle format; every collected output replayed through pickletools.genops/dis"},
   {"name": "E2 call histories", "path": "harness/src/hist.rs", "serves_properties": ["C08","C14"], "kind_free_text": "all histories up to a length over a call alphabet, differential oracle"},
   {"name": "E3 schedule explorer", "path": "harness/src/sched.rs", "serves_properties": ["C07"], "kind_free_text": "cooperative scheduler on real threads, scheduling points = entropy draws, preemption-bounded DFS"},
   {"name": "E4 front-end enumerator", "path": "harness/src/front.rs py/front.py", "serves_properties": ["C13","C07"], "kind_free_text": "spawns CLI / wrapper / Python module, recomputes bytes in-process"},
   {"name": "E5 unit enumerators", "path": "harness/src/units.rs", "serves_properties": ["C15","C16","C18"], "kind_free_text": "exhaustive small input spaces of adapters and mutators"},
 ],
 "checks": [],
 "notes": "bin/check <id> <tier> rebuilds the harness against /repo's working tree (feature verif-hooks) and runs one property; exit 2 = machinery error, never a verdict. known-findings.json lists recorded/fixed defects.",
 "not_applicable": [],
}
for pid in sorted(checks):
    tech, text, note, ref = checks[pid]
    m["checks"].append({
      "property_id": pid,
      "quick_cmd": f"bin/check {pid} quick",
      "thorough_cmd": f"bin/check {pid} thorough",
      "evidence_file": f"evidence/{pid}.json",
      "replay_cmd_template": "bin/check --replay {path}",
      "engine": "verif-harness (harness/)",
      "level_claimed": {"category": "model_checking", "text": text, "design_ref": ref},
      "level_note": note,
      "technique": tech,
    })
json.dump(m, open("/verif/MANIFEST.json", "w"), indent=1)
print("checks:", len(m["checks"]))
